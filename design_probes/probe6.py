import jax, jax.numpy as jnp, equinox as eqx, numpy as np, time
import equinox._filters as F, equinox._module._module as M
_orig = F.is_inexact_array_like
def _safe(element):
    ja = getattr(element, "__jax_array__", None)
    if ja is None and hasattr(element, "__jax_array__"):
        # tracer with __jax_array__ = None (jax>=0.7): treat as the array itself
        return isinstance(element, jax.Array) and bool(jnp.issubdtype(element.dtype, jnp.inexact))
    return _orig(element)
print([m for m in (F, M) if hasattr(m, "is_inexact_array_like")])
F.is_inexact_array_like = _safe; M.is_inexact_array_like = _safe
import jax.random as jr
from flowjax.flows import *
from flowjax.distributions import *
key = jr.PRNGKey(0)
for name, f in {"bnaf": lambda: block_neural_autoregressive_flow(key, base_dist=StandardNormal((2,)), flow_layers=2),
   "bnaf-fwd": lambda: block_neural_autoregressive_flow(key, base_dist=StandardNormal((2,)), flow_layers=2, invert=False),
   "tri": lambda: triangular_spline_flow(key, base_dist=StandardNormal((2,)), flow_layers=2),
   "tri-cond": lambda: triangular_spline_flow(key, base_dist=StandardNormal((2,)), flow_layers=2, cond_dim=2),
   "planar": lambda: planar_flow(key, base_dist=StandardNormal((2,)), flow_layers=2, negative_slope=0.1),
   }.items():
    try:
        t0=time.time()
        fl = f()
        c = jnp.ones((3,2)) if fl.cond_shape else None
        lp = fl.log_prob(jnp.ones((3,2)), c)
        s, lp2 = fl.sample_and_log_prob(key,(3,), None if c is None else c[0])
        print(name, "ok", lp, lp2 - fl.log_prob(s, None if c is None else c[0]), "%.1fs"%(time.time()-t0))
    except Exception as e:
        print(name, "ERR", type(e).__name__, str(e)[:300])
