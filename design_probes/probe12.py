import jax, jax.numpy as jnp, equinox as eqx, numpy as np, time, optax
jax.config.update("jax_enable_x64", True)
import jax.random as jr
from flowjax.train import fit_to_data
from flowjax.train.losses import ContrastiveLoss
from flowjax.distributions import AbstractDistribution, StandardNormal
LOG=[]
def rec(counter, xt, ct, k): LOG.append((float(counter), np.asarray(xt).tolist(), np.asarray(ct).tolist(), np.asarray(k).tolist()))
class Model(eqx.Module):
    counter: jax.Array
def counting_opt():
    return optax.GradientTransformation(lambda p: (), lambda g, s, params=None: (jax.tree_util.tree_map(jnp.ones_like, g), s))
def loss(params, static, x, condition=None, key=None):
    m = eqx.combine(params, static)
    jax.debug.callback(rec, jax.lax.stop_gradient(m.counter), x[:,0], condition[:,0], jr.key_data(key) if jnp.issubdtype(key.dtype, jax.dtypes.prng_key) else key, ordered=True)
    return 0.0*m.counter + 1.0
n=11
x = jnp.stack([jnp.arange(n, dtype=float), jnp.zeros(n)],1); c = (1000+jnp.arange(n, dtype=float))[:,None]
t0=time.time()
out, losses = fit_to_data(jr.PRNGKey(3), Model(jnp.array(0.)), x, condition=c, loss_fn=loss, max_epochs=2, batch_size=4, val_prop=0.3, optimizer=counting_opt(), show_progress=False)
jax.effects_barrier()
print("%.2fs"%(time.time()-t0), "final counter", out.counter)
for e in LOG: print(e)
# contrastive capture
CL=[]
def rec2(x, c): CL.append((np.asarray(x).tolist(), np.asarray(c).tolist()))
class TagDist(AbstractDistribution):
    shape: tuple = (1,)
    cond_shape: tuple = (1,)
    def _log_prob(self, x, condition=None):
        jax.debug.callback(rec2, x, condition)
        return -0.5*jnp.sum((x-condition)**2)
    def _sample(self, key, condition=None): return condition
d = TagDist()
p, s = eqx.partition(d, eqx.is_inexact_array)
xb = jnp.arange(6.)[:,None]; cb = 100+jnp.arange(6.)[:,None]
l = ContrastiveLoss(StandardNormal((1,)), 3)(p, s, xb, cb, jr.PRNGKey(0))
jax.effects_barrier()
print("contrastive loss", l, "events", len(CL)); print(CL[:6])
