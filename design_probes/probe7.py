import jax, jax.numpy as jnp, equinox as eqx, numpy as np, time
jax.config.update("jax_enable_x64", True)
import jax.random as jr
from flowjax.bisection_search import AutoregressiveBisectionInverter, _bisection_search
LOG=[]
def rec(i, x, fx): LOG.append((int(i), float(x), float(fx)))
class BijLike:
    shape=(3,)
    cond_shape=None
    def transform(self, x, condition=None):
        A = jnp.array([[0,0,0],[0.5,0,0],[-0.3,0.8,0]])
        y = jnp.sinh(x) + A @ jnp.tanh(x)
        for i in range(3):
            jax.debug.callback(rec, i, x[i], y[i], ordered=True)
        return y
b = BijLike()
xtrue = jnp.array([0.3, -25.0, 1e3*0+7.5])
y = jnp.sinh(xtrue) + jnp.array([[0,0,0],[0.5,0,0],[-0.3,0.8,0]]) @ jnp.tanh(xtrue)
LOG.clear()
inv = AutoregressiveBisectionInverter(tol=1e-9)
t0=time.time()
xr = inv(b, y)
jax.effects_barrier()
print("root", xr, "err", xr-xtrue, "events", len(LOG), "%.2fs"%(time.time()-t0))
print(LOG[:12])
# under jit + vmap
LOG.clear()
f = jax.jit(jax.vmap(lambda yy: inv(b, yy)))
out = f(jnp.stack([y, y+1]))
jax.effects_barrier()
print("vmap ok", out, len(LOG))
