import os, sys, time
t00=time.time()
import jax, jax.numpy as jnp, equinox as eqx, numpy as np
jax.config.update("jax_enable_x64", True)
if len(sys.argv)>1:
    jax.config.update("jax_compilation_cache_dir", sys.argv[1])
    jax.config.update("jax_persistent_cache_min_entry_size_bytes", -1)
    jax.config.update("jax_persistent_cache_min_compile_time_secs", 0)
import jax.random as jr
from flowjax.bijections import *
from flowjax.flows import *
from flowjax.distributions import *
print("import %.1fs"%(time.time()-t00))
key = jr.PRNGKey(0)
t0=time.time()
fl = masked_autoregressive_flow(key, base_dist=StandardNormal((3,)), flow_layers=2, nn_width=6, transformer=RationalQuadraticSpline(knots=4, interval=2), cond_dim=2)
b = fl.bijection
print("build %.1fs"%(time.time()-t0))
params, static = eqx.partition(b, eqx.is_inexact_array)
@eqx.filter_jit
def bundle(params, xs, cs):
    b = eqx.combine(params, static)
    def one(x, c):
        y, ld = b.transform_and_log_det(x, c)
        y2 = b.transform(x, c)
        xr, ldi = b.inverse_and_log_det(y, c)
        J = jax.jacfwd(lambda x: b.transform(x, c))(x)
        return y, ld, y2, xr, ldi, jnp.linalg.slogdet(J)[1]
    return jax.vmap(one)(xs, cs)
xs = jr.normal(key, (512,3))*2; cs = jr.normal(key,(512,2))
t0=time.time(); out = bundle(params, xs, cs); jax.block_until_ready(out); print("first call %.1fs"%(time.time()-t0))
for i in range(3):
    p2 = jax.tree_util.tree_map(lambda a: a + 0.3*jr.normal(jr.PRNGKey(i), a.shape), params)
    t0=time.time(); out = bundle(p2, xs, cs); jax.block_until_ready(out); 
    y, ld, y2, xr, ldi, ref = out
    print("call %.3fs"%(time.time()-t0), "rt err", float(jnp.abs(xr-xs).max()), "ld err", float(jnp.abs(ld-ref).max()), float(jnp.abs(ld+ldi).max()))
