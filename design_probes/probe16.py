import jax, jax.numpy as jnp, equinox as eqx, numpy as np, time
jax.config.update("jax_enable_x64", True)
import equinox._module._module as M
_o = M.is_inexact_array_like
M.is_inexact_array_like = lambda e: (isinstance(e, jax.Array) and bool(jnp.issubdtype(e.dtype, jnp.inexact))) if (hasattr(e,"__jax_array__") and e.__jax_array__ is None) else _o(e)
import jax.random as jr
from flowjax.distributions import *
from flowjax.bijections import *
from flowjax.flows import *
from flowjax import wrappers
key = jr.PRNGKey(0)
def perturb(d, sig, seed):
    p, s = eqx.partition(d, eqx.is_inexact_array, is_leaf=lambda l: isinstance(l, wrappers.NonTrainable))
    leaves, td = jax.tree_util.tree_flatten(p)
    ks = jr.split(jr.PRNGKey(seed), len(leaves))
    leaves = [l + sig*jr.normal(k, l.shape) for l,k in zip(leaves, ks)]
    return eqx.combine(jax.tree_util.tree_unflatten(td, leaves), s)
def quad2(d, N, s=3.0, cond=None):
    u = np.linspace(-1, 1, N+2)[1:-1]; h = u[1]-u[0]
    x = s*u/(1-u**2); w = s*(1+u**2)/(1-u**2)**2*h
    X = np.stack(np.meshgrid(x, x, indexing="ij"), -1).reshape(-1,2)
    f = eqx.filter_jit(lambda d, X: d.log_prob(X, cond))
    lp = np.concatenate([np.asarray(f(d, jnp.asarray(c))) for c in np.array_split(X, 16)])
    return float((np.exp(lp).reshape(N,N) * w[:,None]*w[None,:]).sum())
def quad1(d, N, s=3.0):
    u = np.linspace(-1, 1, N+2)[1:-1]; h = u[1]-u[0]
    x = s*u/(1-u**2); w = s*(1+u**2)/(1-u**2)**2*h
    lp = np.asarray(eqx.filter_jit(lambda d, X: d.log_prob(X))(d, jnp.asarray(x)[:,None]))
    return float((np.exp(lp)*w).sum())
b2 = StandardNormal((2,)); b1 = StandardNormal((1,))
flows = {
 "coupling2": lambda: coupling_flow(key, base_dist=b2, flow_layers=3, nn_width=6),
 "maf2-rqs": lambda: masked_autoregressive_flow(key, base_dist=b2, flow_layers=2, nn_width=6, transformer=RationalQuadraticSpline(knots=4, interval=3)),
 "bnaf2": lambda: block_neural_autoregressive_flow(key, base_dist=b2, flow_layers=1, nn_block_dim=3),
 "bnaf2-tanh(not onto)": lambda: block_neural_autoregressive_flow(key, base_dist=b2, flow_layers=1, nn_block_dim=3, activation=Tanh()),
 "tri2": lambda: triangular_spline_flow(key, base_dist=b2, flow_layers=2, knots=4),
 "planar2": lambda: planar_flow(key, base_dist=b2, flow_layers=3),
}
for nm, mk in flows.items():
    for sig in [0.0, 0.5, 1.0]:
        d = perturb(mk(), sig, 1)
        t0=time.time(); a = quad2(d, 512); b = quad2(d, 1024); 
        print(f"{nm:22s} sig={sig} N=512:{a:.5f} N=1024:{b:.5f}  {time.time()-t0:.1f}s")
d1 = perturb(masked_autoregressive_flow(key, base_dist=b1, flow_layers=2, nn_width=6, transformer=RationalQuadraticSpline(knots=4, interval=3)), 1.0, 2)
print("1d maf-rqs", quad1(d1, 2**15), quad1(d1, 2**16))
