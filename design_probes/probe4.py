import jax, jax.numpy as jnp, equinox as eqx, numpy as np, time
import jax.random as jr
from flowjax.flows import *
from flowjax.distributions import *
key = jr.PRNGKey(0)
for name, f in {"bnaf": lambda: block_neural_autoregressive_flow(key, base_dist=StandardNormal((2,)), flow_layers=2),
   "tri": lambda: triangular_spline_flow(key, base_dist=StandardNormal((2,)), flow_layers=2),
   "coupling": lambda: coupling_flow(key, base_dist=StandardNormal((2,)), flow_layers=2),
   "maf": lambda: masked_autoregressive_flow(key, base_dist=StandardNormal((2,)), flow_layers=2),
   "planar": lambda: planar_flow(key, base_dist=StandardNormal((2,)), flow_layers=2),
   }.items():
    try:
        t0=time.time()
        fl = f()
        lp = fl.log_prob(jnp.ones((3,2)))
        s = fl.sample(key,(3,))
        print(name, "ok", lp, "%.1fs"%(time.time()-t0))
    except Exception as e:
        import traceback; 
        print(name, "ERR", type(e).__name__, str(e)[:300])
