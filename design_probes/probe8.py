import jax, jax.numpy as jnp, equinox as eqx, numpy as np, time
jax.config.update("jax_enable_x64", True)
import jax.random as jr
from flowjax.distributions import *
from flowjax.bijections import *
from flowjax.flows import *
key = jr.PRNGKey(0)
d = Normal(jnp.arange(3.), jnp.array([1.,2,3]))
def t(name, f):
    try:
        r = f(); print(name, "OK ->", getattr(r,'shape',r))
    except Exception as e:
        print(name, "RAISES", type(e).__name__, str(e)[:90].replace("\n"," "))
t("lp (3,)", lambda: d.log_prob(jnp.ones(3)))
t("lp (1,)", lambda: d.log_prob(jnp.ones(1)))
t("lp ()", lambda: d.log_prob(jnp.ones(())))
t("lp (2,)", lambda: d.log_prob(jnp.ones(2)))
t("lp (4,3)", lambda: d.log_prob(jnp.ones((4,3))))
t("lp (3,1)", lambda: d.log_prob(jnp.ones((3,1))))
t("lp (4,1)", lambda: d.log_prob(jnp.ones((4,1))))
cf = coupling_flow(key, base_dist=StandardNormal((2,)), cond_dim=3, flow_layers=1, nn_width=4)
t("cond lp ok", lambda: cf.log_prob(jnp.ones(2), jnp.ones(3)))
t("cond lp none", lambda: cf.log_prob(jnp.ones(2)))
t("cond lp cond(1,)", lambda: cf.log_prob(jnp.ones(2), jnp.ones(1)))
t("cond lp cond()", lambda: cf.log_prob(jnp.ones(2), jnp.ones(())))
t("cond lp cond(2,)", lambda: cf.log_prob(jnp.ones(2), jnp.ones(2)))
t("cond lp batch mismatch", lambda: cf.log_prob(jnp.ones((4,2)), jnp.ones((5,3))))
t("cond lp batch bc", lambda: cf.log_prob(jnp.ones((4,1,2)), jnp.ones((5,3))))
t("cond sample", lambda: cf.sample(key, (2,), jnp.ones((5,3))))
t("cond sample none", lambda: cf.sample(key, (2,)))
t("cond sample bad", lambda: cf.sample(key, (2,), jnp.ones((5,1))))
t("uncond given cond", lambda: d.log_prob(jnp.ones(3), jnp.ones(7)))
# scalar cond
class CondN(AbstractDistribution):
    shape: tuple = ()
    cond_shape: tuple = ()
    def _log_prob(self, x, condition=None): return -0.5*(x-condition)**2
    def _sample(self, key, condition=None): return condition + jr.normal(key, ())
c = CondN()
t("scalar cond sample", lambda: c.sample(key, (2,), jnp.arange(3.)))
print(c.sample(key, (2,), jnp.arange(3.)*100))
t("scalar cond lp", lambda: c.log_prob(jnp.ones((4,1)), jnp.arange(3.)))
# bijection checks
a = Affine(jnp.zeros(3))
t("bij (1,)", lambda: a.transform(jnp.ones(1)))
t("bij ()", lambda: a.transform(1.0))
t("bij (2,3)", lambda: a.transform(jnp.ones((2,3))))
t("bij list", lambda: a.transform([1.,2,3]))
v = Vmap(RationalQuadraticSpline(knots=3, interval=1), axis_size=3)
t("vmap (1,)", lambda: v.transform(jnp.ones(1)))
t("vmap inv ()", lambda: v.inverse_and_log_det(jnp.ones(())))
