import jax, jax.numpy as jnp, equinox as eqx, numpy as np, itertools
jax.config.update("jax_enable_x64", True)
import jax.random as jr
from flowjax.distributions import AbstractDistribution
class Tag(AbstractDistribution):
    shape: tuple
    cond_shape: tuple | None
    def _sample(self, key, condition=None):
        kd = key.astype(float)  # (2,)
        tag = kd[0]*4294967296.0 + kd[1]
        c = 0.0 if condition is None else jnp.sum(condition * (1+jnp.arange(condition.size).reshape(condition.shape)))
        return jnp.full(self.shape, tag) if self.cond_shape is None else jnp.full(self.shape, tag) * 0 + jnp.stack([tag, c])[(jnp.arange(int(np.prod(self.shape))) % 2).reshape(self.shape)]
    def _log_prob(self, x, condition=None):
        wx = 1+jnp.arange(x.size).reshape(x.shape)
        c = 0.0 if condition is None else 1000*jnp.sum(condition * (1+jnp.arange(condition.size).reshape(condition.shape)))
        return jnp.sum(x*wx) + c
key = jr.PRNGKey(0); rng=np.random.default_rng(0)
bad=0; n=0
for shape, cshape in itertools.product([(),(2,),(2,3)], [None,(),(3,),(2,2)]):
    d = Tag(shape, cshape)
    for xb, cb in itertools.product([(),(1,),(4,),(5,1),(5,4)], [(),(1,),(4,),(5,4)]):
        if cshape is None and cb!=(): continue
        x = rng.normal(size=xb+shape); c = None if cshape is None else rng.normal(size=cb+cshape)
        try: bshape = np.broadcast_shapes(xb, cb)
        except ValueError: bshape=None
        try:
            lp = np.asarray(d.log_prob(jnp.asarray(x), None if c is None else jnp.asarray(c)))
        except Exception as e:
            if bshape is not None: bad+=1; print("unexpected raise", shape,cshape,xb,cb,type(e).__name__)
            continue
        n+=1
        if bshape is None: bad+=1; print("should raise", shape,cshape,xb,cb); continue
        xbb = np.broadcast_to(x, bshape+shape); cbb = None if c is None else np.broadcast_to(c, bshape+cshape)
        ref = np.empty(bshape)
        for idx in np.ndindex(*bshape):
            ref[idx] = float(d.log_prob(jnp.asarray(xbb[idx]), None if c is None else jnp.asarray(cbb[idx])))
        if lp.shape != bshape or not np.allclose(lp, ref, rtol=1e-13): bad+=1; print("MISMATCH", shape,cshape,xb,cb, lp.shape)
    # sampling
    for ss, cb in itertools.product([(),(1,),(3,),(2,3)], [(),(4,),(2,2)]):
        if cshape is None and cb!=(): continue
        c = None if cshape is None else rng.normal(size=cb+cshape)
        s = np.asarray(d.sample(key, ss, None if c is None else jnp.asarray(c)))
        exp = ss + (cb if cshape is not None else ()) + shape
        n+=1
        if s.shape != exp: bad+=1; print("sample shape", s.shape, exp); continue
        flat = s.reshape(-1, int(np.prod(shape)) if shape else 1)
        tags = flat[:,0]
        if len(set(tags.tolist())) != len(tags): bad+=1; print("DUP KEYS", shape,cshape,ss,cb, len(set(tags.tolist())), len(tags))
        s2 = np.asarray(d.sample(key, ss, None if c is None else jnp.asarray(c)))
        if not np.array_equal(s, s2): bad+=1; print("nondeterministic")
print("checked", n, "bad", bad)
