import jax, jax.numpy as jnp, equinox as eqx, numpy as np
import jax.random as jr
from flowjax.bijections import *
from flowjax.distributions import *
from flowjax.train import fit_to_data
key = jr.PRNGKey(0)
for idx in [jnp.array([True, False, True]), np.array([True, False, True]), jnp.array([0,2]), slice(0,2), (jnp.array([0,2]),)]:
    d = Transformed(StandardNormal((3,)), Partial(Affine(jnp.zeros(2)), idx, (3,)))
    try:
        out, l = fit_to_data(key, d, jr.normal(key,(20,3)), max_epochs=1, show_progress=False)
        print(type(idx).__name__, getattr(idx,'dtype',None), "fit ok")
    except Exception as e:
        print(type(idx).__name__, getattr(idx,'dtype',None), "fit FAIL", type(e).__name__)
    try:
        print("   jit log_prob:", eqx.filter_jit(d.log_prob)(jnp.ones(3)))
    except Exception as e: print("   jit log_prob FAIL", type(e).__name__)
