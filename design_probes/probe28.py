import jax, jax.numpy as jnp, equinox as eqx, numpy as np, time
jax.config.update("jax_enable_x64", True)
import equinox._module._module as M
_o = M.is_inexact_array_like
M.is_inexact_array_like = lambda e: (isinstance(e, jax.Array) and bool(jnp.issubdtype(e.dtype, jnp.inexact))) if (hasattr(e,"__jax_array__") and e.__jax_array__ is None) else _o(e)
import jax.random as jr
from flowjax.distributions import *
from flowjax.bijections import *
from flowjax.flows import *
from flowjax import wrappers
key = jr.PRNGKey(0)
def perturb(d, sig, seed):
    p, s = eqx.partition(d, eqx.is_inexact_array, is_leaf=lambda l: isinstance(l, wrappers.NonTrainable))
    leaves, td = jax.tree_util.tree_flatten(p)
    ks = jr.split(jr.PRNGKey(seed), len(leaves))
    leaves = [l + sig*jr.normal(k, l.shape) for l,k in zip(leaves, ks)]
    return eqx.combine(jax.tree_util.tree_unflatten(td, leaves), s)
CH=1<<16
def make_eval(d):
    f = eqx.filter_jit(lambda d, X: d.log_prob(X))
    def ev(X):
        out=np.empty(len(X)); 
        for i in range(0,len(X),CH):
            blk=X[i:i+CH]; n=len(blk)
            if n<CH: blk=np.concatenate([blk, np.zeros((CH-n,2))])
            out[i:i+n]=np.asarray(f(d, jnp.asarray(blk)))[:n]
        return out
    return ev
g3x, g3w = np.polynomial.legendre.leggauss(3); g2x, g2w = np.polynomial.legendre.leggauss(2)
def cell_rule(ev, lo, hi, gx, gw, s):
    # lo,hi: (n,2) in u-space; tensor rule
    c=(lo+hi)/2; h=(hi-lo)/2
    U = c[:,None,None,:] + h[:,None,None,:]*np.stack(np.meshgrid(gx,gx,indexing="ij"),-1)[None]
    W = (gw[:,None]*gw[None,:])[None]*h[:,0,None,None]*h[:,1,None,None]
    X = s*U/(1-U**2); Jac = np.prod(s*(1+U**2)/(1-U**2)**2, -1)
    lp = ev(X.reshape(-1,2)).reshape(U.shape[:-1])
    return (np.exp(lp)*Jac*W).sum((1,2))
def adaptive(d, s=3.0, n0=64, tol=5e-3, max_evals=2e7):
    ev=make_eval(d)
    e=np.linspace(-1,1,n0+1)
    lo=np.stack(np.meshgrid(e[:-1],e[:-1],indexing="ij"),-1).reshape(-1,2); hi=np.stack(np.meshgrid(e[1:],e[1:],indexing="ij"),-1).reshape(-1,2)
    total=0.0; err=0.0; evals=0; depth=0
    while len(lo):
        I3=cell_rule(ev,lo,hi,g3x,g3w,s); I2=cell_rule(ev,lo,hi,g2x,g2w,s); evals+=len(lo)*13
        E=np.abs(I3-I2)
        thr = tol/4/ max(1,len(lo)) if depth==0 else tol/4/4**depth/n0**2*4**depth  # share by area
        thr = tol/4 * (np.prod(hi-lo,1)/4.0)  # proportional to area (total area 4)
        bad = E>np.maximum(thr, 1e-14)
        if depth>=12 or evals>max_evals: bad[:]=False
        total+=I3[~bad].sum(); err+=E[~bad].sum()
        lo_b, hi_b = lo[bad], hi[bad]; mid=(lo_b+hi_b)/2
        if len(lo_b)==0: break
        nl=[];nh=[]
        for a in (0,1):
            for b in (0,1):
                l=np.where([a,b], mid, lo_b); h=np.where([a,b], hi_b, mid); nl.append(l); nh.append(h)
        lo=np.concatenate(nl); hi=np.concatenate(nh); depth+=1
    return total, err, evals, depth
b2 = StandardNormal((2,))
flows = {
 "maf2-rqs": lambda: masked_autoregressive_flow(key, base_dist=b2, flow_layers=2, nn_width=6, transformer=RationalQuadraticSpline(knots=4, interval=3)),
 "bnaf2": lambda: block_neural_autoregressive_flow(key, base_dist=b2, flow_layers=1, nn_block_dim=3),
 "bnaf2-tanh": lambda: block_neural_autoregressive_flow(key, base_dist=b2, flow_layers=1, nn_block_dim=3, activation=Tanh()),
 "tri2": lambda: triangular_spline_flow(key, base_dist=b2, flow_layers=2, knots=4),
 "coupling2": lambda: coupling_flow(key, base_dist=b2, flow_layers=3, nn_width=6),
}
for nm, mk in flows.items():
    for sig in [0.0, 0.6, 1.0]:
        d = perturb(mk(), sig, 1); t0=time.time()
        I,E,n,dep = adaptive(d)
        print(f"{nm:12s} sig={sig} I={I:.5f} E={E:.1e} evals={n:.2e} depth={dep} {time.time()-t0:.1f}s")
