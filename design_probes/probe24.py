import itertools, jax, jax.numpy as jnp, equinox as eqx, numpy as np, time, optax
import jax.random as jr
from flowjax.train import fit_to_data, fit_to_variational_target
from flowjax.wrappers import NonTrainable
def counting_opt():
    return optax.GradientTransformation(lambda p: (), lambda g, s, params=None: (jax.tree_util.tree_map(jnp.ones_like, g), s))
class Model(eqx.Module):
    counter: jax.Array
    table: NonTrainable
@eqx.filter_jit
def vloss(params, static, key):
    m = eqx.combine(params, static); t = m.table.tree
    return t[jnp.clip(m.counter.astype(int), 0, t.shape[0]-1)] + 0.0*m.counter
@eqx.filter_jit
def dloss(params, static, x, condition=None, key=None):
    m = eqx.combine(params, static); t = m.table.tree
    return t[jnp.clip(m.counter.astype(int), 0, t.shape[0]-1)] + 0.0*m.counter + 0.0*x.sum()
opt = counting_opt(); x = jnp.arange(10.)[:,None]; PAD=9
def model_data(script, max_epochs, pat, rb):
    # val loss at epoch e (0-based) = script[e+1] (counter after e+1 updates); train loss = script[e]
    val=[]; best=0; ran=0
    for e in range(max_epochs):
        ran=e+1; val.append(script[e+1])
        am = int(np.argmin(val))
        if val[-1]==min(val): best=e+1
        elif (len(val)-am-1) > pat: break
    return ran, (best if rb else ran), val
def model_var(script, steps, rb):
    losses = list(script[:steps])
    return (int(np.argmin(losses)) if (rb and steps>0) else steps), losses
bad_d=0; bad_v=0; n=0; t0=time.time(); ex=[]
for L in [1,2,3,4]:
  for perm in itertools.permutations(range(1,L+2)):   # L+1 values: counter 0..L
    script = list(map(float, perm)); tab = jnp.array(script + [99.0]*(PAD-len(script)))
    for rb in [True, False]:
      for me in range(0, L+1):
        for pat in range(0, L+1):
            m = Model(jnp.array(0.0), NonTrainable(tab))
            out, losses = fit_to_data(jr.PRNGKey(0), m, x, loss_fn=dloss, max_epochs=me, max_patience=pat, batch_size=100, val_prop=0.2, optimizer=opt, return_best=rb, show_progress=False)
            ran, ret, val = model_data(script, me, pat, rb); n+=1
            if int(out.counter)!=ret or [float(v) for v in losses["val"]]!=val or len(losses["train"])!=ran:
                bad_d+=1; ex.append(("data",script,me,pat,rb,int(out.counter),ret))
        m = Model(jnp.array(0.0), NonTrainable(tab))
        out, losses = fit_to_variational_target(jr.PRNGKey(0), m, vloss, steps=me, optimizer=opt, return_best=rb, show_progress=False)
        ret, ls = model_var(script, me, rb)
        if int(out.counter)!=ret or losses!=ls: bad_v+=1; ex.append(("var",script,me,rb,int(out.counter),ret))
print("runs", n, "data mismatches", bad_d, "var mismatches", bad_v, "%.1fs"%(time.time()-t0))
print(ex[:6])
