import jax, jax.numpy as jnp, equinox as eqx, numpy as np, time
jax.config.update("jax_enable_x64", True)
import equinox._filters as F, equinox._module._module as M
_orig = F.is_inexact_array_like
def _safe(element):
    if hasattr(element, "__jax_array__") and getattr(element, "__jax_array__") is None:
        return isinstance(element, jax.Array) and bool(jnp.issubdtype(element.dtype, jnp.inexact))
    return _orig(element)
F.is_inexact_array_like = _safe; M.is_inexact_array_like = _safe
import jax.random as jr
from flowjax.distributions import *
from flowjax.bijections import *
from flowjax.flows import *
from flowjax.wrappers import unwrap
key = jr.PRNGKey(0)
def finite_tree(t):
    return all(bool(jnp.all(jnp.isfinite(l))) for l in jax.tree_util.tree_leaves(eqx.filter(t, eqx.is_inexact_array)))
def scan(name, d, xs, cond=None):
    bad = []
    for x in xs:
        x = jnp.asarray(x, float)
        lp = d.log_prob(x, cond)
        if bool(jnp.isnan(lp)): bad.append(("NaN lp", x)); continue
        if not bool(jnp.isfinite(lp)): continue
        gx = jax.grad(lambda x: d.log_prob(x, cond))(x)
        gp = eqx.filter_grad(lambda d: d.log_prob(x, cond))(d)
        if not bool(jnp.all(jnp.isfinite(gx))): bad.append(("gx", np.asarray(x).tolist()))
        if not finite_tree(gp): bad.append(("gp", np.asarray(x).tolist()))
    print(name, "bad:", bad[:8], len(bad))
pts = [0.0, 1.0, -1.0, np.nextafter(1.0,2), np.nextafter(1.0,0), 3.0,-3.0, np.tanh(3.0), -np.tanh(3.0), 1e4, -1e4, 0.5, 2.0, -2.0, 1e-300, 30., 100.0, 745.,-745.]
base = StandardNormal(())
for nm, b in {"RQS": RationalQuadraticSpline(knots=4, interval=1), "RQS(-1,2)": RationalQuadraticSpline(knots=4, interval=(-1.,2.)),
   "LeakyTanh1": LeakyTanh(1), "LeakyTanh3": LeakyTanh(3), "Tanh": Tanh(), "SoftPlus": SoftPlus(), "Exp": Exp(), "Affine": Affine(0.3, 2.0)}.items():
    scan(nm+" fwd", Transformed(base, b), pts)
    scan(nm+" inv", Transformed(base, Invert(b)), pts)
# knots
s = RationalQuadraticSpline(knots=4, interval=1)
kn = [float(v) for v in unwrap(s).x_pos]
scan("RQS knots fwd", Transformed(base, s), kn); scan("RQS knots inv", Transformed(base, Invert(s)), kn)
# flows
base2 = StandardNormal((2,))
pts2 = [[0.,0.],[1.,1.],[-1.,1.],[3.,-3.],[1e4,-1e4],[np.tanh(3.0), 1.0],[0.5,-1.0], [100., 0.]]
for nm, f in {"coupling": coupling_flow(key, base_dist=base2, flow_layers=2, nn_width=4),
  "coupling-rqs": coupling_flow(key, base_dist=base2, flow_layers=2, nn_width=4, transformer=RationalQuadraticSpline(knots=3, interval=1)),
  "maf-rqs": masked_autoregressive_flow(key, base_dist=base2, flow_layers=2, nn_width=4, transformer=RationalQuadraticSpline(knots=3, interval=1)),
  "maf-rqs-fwd": masked_autoregressive_flow(key, base_dist=base2, flow_layers=2, nn_width=4, invert=False, transformer=RationalQuadraticSpline(knots=3, interval=1)),
  "bnaf": block_neural_autoregressive_flow(key, base_dist=base2, flow_layers=1, nn_block_dim=2),
  "tri": triangular_spline_flow(key, base_dist=base2, flow_layers=1, knots=3),
  "tri-fwd": triangular_spline_flow(key, base_dist=base2, flow_layers=1, knots=3, invert=False),
  "planar": planar_flow(key, base_dist=base2, flow_layers=2),
  "planar-lrelu-fwd": planar_flow(key, base_dist=base2, flow_layers=2, negative_slope=0.1, invert=False),
  }.items():
    t0=time.time()
    scan(nm, f, pts2); print("   %.1fs"%(time.time()-t0))
