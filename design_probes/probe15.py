import jax, jax.numpy as jnp, equinox as eqx, numpy as np
jax.config.update("jax_enable_x64", True)
import jax.random as jr
from flowjax.distributions import *
from flowjax.bijections import *
from flowjax.flows import *
from flowjax.train.losses import ElboLoss
key = jr.PRNGKey(0)
target = lambda x: -0.5*jnp.sum((x-1.0)**2/0.3)
d = masked_autoregressive_flow(key, base_dist=StandardNormal((2,)), flow_layers=2, nn_width=4, invert=False)
d = jax.tree_util.tree_map(lambda a: a + 0.3*jr.normal(jr.PRNGKey(a.size), a.shape) if eqx.is_inexact_array(a) else a, d)
p, s = eqx.partition(d, eqx.is_inexact_array, is_leaf=lambda l: isinstance(l, __import__("flowjax").wrappers.NonTrainable))
k = jr.PRNGKey(5); n=7
plain = ElboLoss(target, n); stl = ElboLoss(target, n, stick_the_landing=True)
v1, g1 = eqx.filter_value_and_grad(plain)(p, s, k)
v2, g2 = eqx.filter_value_and_grad(stl)(p, s, k)
# reference value
dd = eqx.combine(p, s)
xs, lps = dd.sample_and_log_prob(k, (n,))
ref = float(np.mean(np.asarray(lps) - np.asarray(jax.vmap(target)(xs))))
print("values", float(v1), float(v2), ref)
# score term: mean grad_theta log q_theta(x_i) with x fixed
def mean_lp(p): return eqx.combine(p, s).log_prob(jax.lax.stop_gradient(xs)).mean()
score = eqx.filter_grad(mean_lp)(p)
diff = jax.tree_util.tree_map(lambda a,b,c: float(jnp.abs(a - b - c).max()), g1, g2, score)
print("max |g_plain - g_stl - score| per leaf:", jax.tree_util.tree_leaves(diff))
print("max |score|:", max(float(jnp.abs(l).max()) for l in jax.tree_util.tree_leaves(score)))
