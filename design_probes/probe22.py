import io, jax, jax.numpy as jnp, equinox as eqx, numpy as np
import equinox._module._module as M
_o = M.is_inexact_array_like
M.is_inexact_array_like = lambda e: (isinstance(e, jax.Array) and bool(jnp.issubdtype(e.dtype, jnp.inexact))) if (hasattr(e,"__jax_array__") and e.__jax_array__ is None) else _o(e)
import jax.random as jr
from flowjax.bijections import *
from flowjax.distributions import *
from flowjax.flows import *
key = jr.PRNGKey(0)
b2 = StandardNormal((2,))
dists = {
 "Normal": lambda k: Normal(jr.normal(k,(2,)), 1.5), "LogNormal": lambda k: LogNormal(jr.normal(k,(2,)), 0.5), "MVN": lambda k: MultivariateNormal(jr.normal(k,(2,)), jnp.array([[2.,0.3],[0.3,1.]])),
 "Uniform": lambda k: Uniform(-jnp.ones(2), 2+jr.uniform(k,(2,))), "Gumbel": lambda k: Gumbel(jr.normal(k,(2,)), 2.), "Cauchy": lambda k: Cauchy(jr.normal(k,(2,)), 2.), "StudentT": lambda k: StudentT(3.+jr.uniform(k,(2,)), 0., 2.),
 "Laplace": lambda k: Laplace(jr.normal(k,(2,))), "Exponential": lambda k: Exponential(1+jr.uniform(k,(2,))), "Logistic": lambda k: Logistic(jr.normal(k,(2,))),
 "Mixture": lambda k: VmapMixture(eqx.filter_vmap(Normal)(jr.normal(k,(3,2))), jnp.array([1.,2,3])),
 "coupling": lambda k: coupling_flow(k, base_dist=b2, flow_layers=2, nn_width=4), "maf-c": lambda k: masked_autoregressive_flow(k, base_dist=b2, flow_layers=2, nn_width=4, cond_dim=2),
 "bnaf": lambda k: block_neural_autoregressive_flow(k, base_dist=b2, nn_block_dim=2), "tri": lambda k: triangular_spline_flow(k, base_dist=b2, flow_layers=2, knots=3), "planar": lambda k: planar_flow(k, base_dist=b2, flow_layers=2, negative_slope=0.2),
}
for nm, mk in dists.items():
    d = mk(jr.PRNGKey(1)); d2 = mk(jr.PRNGKey(2))
    c = jnp.ones(d.cond_shape) if d.cond_shape else None
    x = d.sample(key, (3,), c)
    out=[]
    try:
        e = d.log_prob(x, c); j = eqx.filter_jit(d.log_prob)(x, c); out.append("lp %.1e"%float(jnp.abs(e-j).max()))
        e = d.sample(key,(3,),c); j = eqx.filter_jit(d.sample)(key,(3,),c); out.append("s %.1e"%float(jnp.abs(e-j).max()))
        e = d.sample_and_log_prob(key,(3,),c); j = eqx.filter_jit(d.sample_and_log_prob)(key,(3,),c); out.append("slp %.1e"%float(jnp.abs(e[1]-j[1]).max()))
    except Exception as ex: out.append("JITFAIL "+type(ex).__name__+str(ex)[:80])
    try:
        buf = io.BytesIO(); eqx.tree_serialise_leaves(buf, d); buf.seek(0)
        d3 = eqx.tree_deserialise_leaves(buf, d2)
        out.append("ser %.1e"%float(jnp.abs(d3.log_prob(x,c)-d.log_prob(x,c)).max()))
    except Exception as ex: out.append("SERFAIL "+type(ex).__name__+str(ex)[:80])
    print(nm, out)
