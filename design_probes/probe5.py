import jax, jax.numpy as jnp, equinox as eqx
import jax.random as jr, traceback
from flowjax.wrappers import *
from flowjax.bijections import *
try:
    eqx.filter_vmap(lambda w: WeightNormalization(w))(jnp.ones((2,3,3)))
except Exception as e:
    traceback.print_exc()
