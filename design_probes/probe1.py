import jax, jax.numpy as jnp, equinox as eqx, numpy as np, time
jax.config.update("jax_enable_x64", True)
from flowjax.bijections import *
from flowjax.wrappers import unwrap
import jax.random as jr
s = RationalQuadraticSpline(knots=4, interval=(-1.0, 2.0))
# perturb
s = eqx.tree_at(lambda s: s.derivatives.args[0], s, jnp.array([2.0,0.3,-1,0.5,1,3.0]))
s = eqx.tree_at(lambda s: s.x_pos.args[0], s, jnp.array([0.5,-1,2,0.1]))
s = eqx.tree_at(lambda s: s.y_pos.args[0], s, jnp.array([-0.5,1,0.2,0.7]))
print("x_pos", unwrap(s).x_pos, "deriv", unwrap(s).derivatives)
for x in [-1.0, 2.0, float(unwrap(s).x_pos[2]), -1.0000001, 0.3]:
    y, ld = s.transform_and_log_det(jnp.array(x))
    xi, ldi = s.inverse_and_log_det(y)
    print(x, "->", y, ld, " inv->", xi, ldi)
print("inverse(interval[0])", s.inverse(jnp.array(-1.0)), "inverse(interval[1])", s.inverse(jnp.array(2.0)))
# gradient at boundary
s0 = RationalQuadraticSpline(knots=4, interval=1)
def f(s, x): return s.inverse_and_log_det(x)[1]
for x in [-1.0, 1.0, 0.0]:
    g = eqx.filter_grad(f)(s0, jnp.array(x))
    print("grad inv logdet at", x, jax.tree_util.tree_leaves(g))
def f2(s, x): return s.transform_and_log_det(x)[1]
for x in [-1.0, 1.0]:
    g = eqx.filter_grad(f2)(s0, jnp.array(x))
    print("grad fwd logdet at", x, jax.tree_util.tree_leaves(g))
lt = LeakyTanh(3)
print("leakytanh inv grad at 1:", jax.grad(lambda y: lt.inverse(y))(jnp.array(1.0)), jax.grad(lambda y: lt.inverse_and_log_det(y)[1])(jnp.array(1.0)))
print("leakytanh inv grad at 2:", jax.grad(lambda y: lt.inverse(y))(jnp.array(2.0)))
print("leakytanh fwd grad at 3, 100:", jax.grad(lambda y: lt.transform_and_log_det(y)[1])(jnp.array(3.0)), jax.grad(lambda y: lt.transform_and_log_det(y)[1])(jnp.array(100.0)))
# Stack neg axis
try:
    st = Stack([Affine(jnp.ones((2,3))), Affine(jnp.ones((2,3)))], axis=-1)
    print("stack shape", st.shape)
    print(st.transform(jnp.ones(st.shape)).shape)
except Exception as e: print("Stack err", type(e), str(e)[:200])
try:
    st = Stack([Affine(jnp.ones((2,3))), Affine(jnp.ones((2,3)))], axis=-1)
    print(st.transform(jnp.ones((2,3,2))).shape)
except Exception as e: print("Stack err2", type(e), str(e)[:200])
