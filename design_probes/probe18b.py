import jax, jax.numpy as jnp, equinox as eqx, numpy as np, time
jax.config.update("jax_enable_x64", True)
import jax.random as jr
from flowjax.bijections import *
from flowjax import wrappers
from flowjax.wrappers import unwrap
key = jr.PRNGKey(0)
EPS=2.2e-16; K=1e4
def perturb(d, sig, seed):
    p, s = eqx.partition(d, eqx.is_inexact_array, is_leaf=lambda l: isinstance(l, wrappers.NonTrainable))
    leaves, td = jax.tree_util.tree_flatten(p)
    ks = jr.split(jr.PRNGKey(seed), len(leaves))
    leaves = [l + sig*jr.normal(k, l.shape) for l,k in zip(leaves, ks)]
    return eqx.combine(jax.tree_util.tree_unflatten(td, leaves), s)
def vspl(n, **kw): return Vmap(eqx.filter_vmap(lambda: RationalQuadraticSpline(**kw), axis_size=n)(), in_axes=eqx.if_array(0))
D=3
structs = {
 "chain-aff-rqs-aff": lambda: Chain([Affine(jnp.full(D,10.), jnp.full(D,50.)), vspl(D, knots=6, interval=(-1.,2.)), Affine(jnp.full(D,-10.), jnp.full(D,0.02))]),
 "triaff": lambda: TriangularAffine(jnp.arange(3.), jnp.eye(3)*0.01 + jnp.tril(jnp.ones((3,3)),-1)*3),
 "coupling-rqs": lambda: Coupling(key, transformer=RationalQuadraticSpline(knots=5, interval=2), untransformed_dim=1, dim=D, nn_width=6, nn_depth=1),
 "maf-aff": lambda: MaskedAutoregressive(key, transformer=Affine(), dim=D, nn_width=6, nn_depth=1),
 "planar-lrelu": lambda: Planar(key, dim=D, negative_slope=0.1),
 "leakytanh": lambda: LeakyTanh(3, (D,)),
 "inv-leakytanh": lambda: Invert(LeakyTanh(1, (D,))),
 "softplus": lambda: SoftPlus((D,)), "exp": lambda: Exp((D,)), "tanh": lambda: Tanh((D,)),
 "bnaf": lambda: BlockAutoregressiveNetwork(key, dim=D, depth=1, block_dim=3),
}
rng = np.random.default_rng(0)
def inputs():
    xs = [rng.normal(size=(60,D))*s for s in (0.1,1,10)]
    xs.append(rng.choice([-1,1],(20,D))*10.0**rng.integers(2,7,(20,D)))
    xs.append(rng.choice([-3.,3.,-1.,1.,0.,2.,np.nextafter(-2.,0), np.tanh(3.)], (40,D)))
    return np.concatenate(xs)
for nm, mk in structs.items():
    worst=0; gated=0; n=0; worst_ld=0; nanct=0; nld=0
    for sig in [0.0, 1.0, 3.0]:
        b = perturb(mk(), sig, 3)
        numeric = nm=="bnaf"
        @eqx.filter_jit
        def bundle(b, xs):
            def one(x):
                y, ld = b.transform_and_log_det(x)
                xr, ldi = b.inverse_and_log_det(y)
                J = jax.jacfwd(b.transform)(x)
                return y, ld, xr, ldi, J
            return jax.vmap(one)(xs)
        xs = inputs()
        if nm=="exp": xs = np.clip(xs, -700, 700)
        y, ld, xr, ldi, J = [np.asarray(a) for a in bundle(b, jnp.asarray(xs))]
        for i in range(len(xs)):
            if not np.all(np.isfinite(J[i])) or not np.all(np.isfinite(y[i])): nanct+=1; continue
            try: Ji = np.linalg.inv(J[i])
            except np.linalg.LinAlgError: gated+=1; continue
            nJ = np.abs(J[i]).sum(1).max(); nJi = np.abs(Ji).sum(1).max(); nx=np.abs(xs[i]).max(); ny=np.abs(y[i]).max()
            tol = K*EPS*(nJi*(1+ny+nJ*nx) + 1+nx) + 1e-9*(1+nx)
            if numeric:
                Dg = np.diag(np.diag(J[i])); L = np.tril(J[i],-1)
                prop = np.abs(np.linalg.inv(np.eye(D) - np.abs(np.linalg.inv(Dg)@L))).sum(1).max()
                tol += 1e-7*prop*10 + 4*np.spacing(nx)
            if tol > 1e-3*(1+nx): gated+=1; continue
            n+=1
            err = np.abs(xr[i]-xs[i]).max()
            worst = max(worst, err/tol)
            sgn, ref = np.linalg.slogdet(J[i])
            tl = 1e-8*(1+abs(ref)) + K*EPS*D*nJi*(1+nJ)
            if tl < 1e-3:
                nld+=1
                worst_ld = max(worst_ld, abs(ld[i]-ref)/tl)
                if not numeric: worst_ld = max(worst_ld, abs(ldi[i]+ref)/tl)
    print(f"{nm:20s} compared={n:4d} gated={gated:3d} nonfinite={nanct:3d} worst err/tol={worst:.2e} worst ld err/tol={worst_ld:.2e} nld={nld}")
