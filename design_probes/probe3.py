import jax, jax.numpy as jnp, equinox as eqx, numpy as np, time, optax
import jax.random as jr
from flowjax.train import fit_to_data, fit_to_variational_target
from flowjax.wrappers import NonTrainable

def counting_opt():
    def init(params): return ()
    def update(g, state, params=None):
        return jax.tree_util.tree_map(lambda x: jnp.ones_like(x), g), state
    return optax.GradientTransformation(init, update)

class Model(eqx.Module):
    counter: jax.Array
    table: NonTrainable

@eqx.filter_jit
def vloss(params, static, key):
    m = eqx.combine(params, static)
    t = m.table.tree
    return t[jnp.clip(m.counter.astype(int), 0, t.shape[0]-1)] + 0.0*m.counter

opt = counting_opt()
for table in [[1.,4,16,64],[64.,16,4,1],[3.,1,2,5]]:
  for rb in [True, False]:
    m = Model(jnp.array(0.0), NonTrainable(jnp.array(table)))
    t0=time.time()
    out, losses = fit_to_variational_target(jr.PRNGKey(0), m, vloss, steps=4, optimizer=opt, return_best=rb, show_progress=False)
    print(table, rb, "returned counter", out.counter, "losses", losses, "%.3fs"%(time.time()-t0))

@eqx.filter_jit
def dloss(params, static, x, condition=None, key=None):
    m = eqx.combine(params, static)
    t = m.table.tree
    return t[jnp.clip(m.counter.astype(int), 0, t.shape[0]-1)] + 0.0*m.counter + 0.0*x.sum()
x = jnp.arange(10.)[:,None]
for table in [[9.,5,4,6,7,8,1,0,0], [9.,1,2,3,4,5,6,7,8]]:
  for pat in [0,1,2]:
    m = Model(jnp.array(0.0), NonTrainable(jnp.array(table)))
    t0=time.time()
    out, losses = fit_to_data(jr.PRNGKey(0), m, x, loss_fn=dloss, max_epochs=8, max_patience=pat, batch_size=100, val_prop=0.2, optimizer=opt, show_progress=False)
    print(table, pat, "returned counter", out.counter, "val", [float(v) for v in losses["val"]], "train", [float(v) for v in losses["train"]], "%.3fs"%(time.time()-t0))
