import jax, jax.numpy as jnp, equinox as eqx, numpy as np, time
jax.config.update("jax_enable_x64", True)
import jax.random as jr
from flowjax.bijections import *
from flowjax import wrappers
key = jr.PRNGKey(0)
def perturb(d, sig, seed):
    p, s = eqx.partition(d, eqx.is_inexact_array, is_leaf=lambda l: isinstance(l, wrappers.NonTrainable))
    leaves, td = jax.tree_util.tree_flatten(p)
    ks = jr.split(jr.PRNGKey(seed), len(leaves))
    leaves = [l + sig*jr.normal(k, l.shape) for l,k in zip(leaves, ks)]
    return eqx.combine(jax.tree_util.tree_unflatten(td, leaves), s)
D=3
rng = np.random.default_rng(0)
for sig in [0.0,1.0,3.0]:
    b = perturb(BlockAutoregressiveNetwork(key, dim=D, depth=1, block_dim=3), sig, 3)
    xs = np.concatenate([rng.normal(size=(60,D))*s for s in (0.1,1,10)])
    f = eqx.filter_jit(lambda b, xs: jax.vmap(lambda x: (b.transform_and_log_det(x)[1], jax.jacfwd(b.transform)(x)))(xs))
    ld, J = [np.asarray(a) for a in f(b, jnp.asarray(xs))]
    ref = np.array([np.linalg.slogdet(j)[1] for j in J]); refdiag = np.array([np.log(np.abs(np.diag(j))).sum() for j in J])
    kap = np.array([np.linalg.cond(j) for j in J])
    i = np.argmax(np.abs(ld-ref)/(1e-8*(1+np.abs(ref))+2.2e-12*kap))
    print("sig",sig,"worst idx",i,"x",xs[i],"ld",ld[i],"ref slogdet",ref[i],"ref diag",refdiag[i],"kappa %.2e"%kap[i], "max|ld-refdiag|", np.abs(ld-refdiag).max(), "max |ld-ref|", np.abs(ld-ref).max())
    print(J[i])
