# sys.monitoring line coverage cost probe + ordered callback under grad of where-branches
import sys, time, os
t0=time.time()
mon = sys.monitoring
TOOL = 3
mon.use_tool_id(TOOL, "fjcov")
HIT=set()
def on_line(code, line):
    fn = code.co_filename
    if "/repo/flowjax/" in fn:
        HIT.add((fn, line))
    return mon.DISABLE
mon.register_callback(TOOL, mon.events.LINE, on_line)
mon.set_events(TOOL, mon.events.LINE)
import jax, jax.numpy as jnp, equinox as eqx
import jax.random as jr
from flowjax.flows import coupling_flow
from flowjax.distributions import StandardNormal
f = coupling_flow(jr.PRNGKey(0), base_dist=StandardNormal((2,)), flow_layers=2, nn_width=4)
print(f.log_prob(jnp.ones((3,2))))
print("wall %.1fs"%(time.time()-t0), "lines hit", len(HIT))
from collections import Counter
print(Counter(os.path.basename(f) for f,_ in HIT).most_common(8))
