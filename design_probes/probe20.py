import sys, jax, jax.numpy as jnp, equinox as eqx, numpy as np, time
import jax.random as jr
sys.path.insert(0, "/repo/tests/test_bijections")
import importlib.util
spec = importlib.util.spec_from_file_location("tb", "/repo/tests/test_bijections/test_bijections.py")
tb = importlib.util.module_from_spec(spec); spec.loader.exec_module(tb)
key = jr.PRNGKey(0)
for name, mk in tb.bijections.items():
    b = mk()
    x = jr.normal(key, b.shape); c = jr.normal(key, b.cond_shape) if b.cond_shape is not None else None
    res = []
    for meth in ["transform", "transform_and_log_det", "inverse", "inverse_and_log_det"]:
        try:
            e = getattr(b, meth)(x, c)
        except NotImplementedError:
            res.append("NI"); continue
        try:
            j = eqx.filter_jit(getattr(b, meth))(x, c)
            d = max(float(jnp.abs(a-bb).max()) for a,bb in zip(jax.tree_util.tree_leaves(e), jax.tree_util.tree_leaves(j)))
            res.append("ok" if d < 1e-5 else f"DIFF{d:.1e}")
        except Exception as ex:
            res.append("JITFAIL:"+type(ex).__name__)
        try:
            xs = jnp.stack([x, x*0.5]); cs = None if c is None else jnp.stack([c, c*0.5])
            v = jax.vmap(getattr(b, meth))(xs, cs) if c is not None else jax.vmap(lambda x: getattr(b, meth)(x))(xs)
        except Exception as ex:
            res.append("VMAPFAIL:"+type(ex).__name__)
    if any(r not in ("ok","NI") for r in res): print(name, res)
print("done")
