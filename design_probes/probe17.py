import jax, jax.numpy as jnp, numpy as np, scipy.stats as st
jax.config.update("jax_enable_x64", True)
from flowjax.distributions import *
xs = np.array([-1e4,-800.,-100.,-30.,0.,30.,100.,800.,1e4])
fams = {"Logistic": (Logistic(0.,1.), st.logistic()), "Gumbel": (Gumbel(0.,1.), st.gumbel_r()), "Cauchy": (Cauchy(0.,1.), st.cauchy()), "Laplace": (Laplace(0.,1.), st.laplace()),
        "StudentT3": (StudentT(3.,0.,1.), st.t(3.)), "Normal": (Normal(0.,1.), st.norm()), "Exponential": (Exponential(2.), st.expon(scale=0.5)), "LogNormal": (LogNormal(0.5,2.), st.lognorm(s=2., scale=np.exp(0.5))), "Uniform": (Uniform(-1.,3.), st.uniform(-1,4))}
for n,(d,r) in fams.items():
    a = np.asarray(d.log_prob(xs)); b = r.logpdf(xs)
    print(n, "\n  fj ", a, "\n  sp ", b)
import inspect, jax.scipy.stats.logistic as L
print(inspect.getsource(L.logpdf)[-400:])
