import jax, jax.numpy as jnp, equinox as eqx, numpy as np
jax.config.update("jax_enable_x64", True)
import jax.random as jr
from flowjax.bijections import *
from flowjax.wrappers import unwrap
s = RationalQuadraticSpline(knots=4, interval=(-1.0, 2.0))
s = eqx.tree_at(lambda s: s.derivatives.args[0], s, jnp.array([2.0,0.3,-1,0.5,1,3.0]))
us = unwrap(s)
for x in [-1.0, np.nextafter(-1.0, 0), np.nextafter(-1.0,-2), 2.0, np.nextafter(2.0,0), np.nextafter(2.0,3), float(us.x_pos[2])]:
    g = jax.grad(lambda x: s.transform(x))(jnp.array(x)); ld = s.transform_and_log_det(jnp.array(x))[1]
    print("x=%r autodiff dy/dx=%.6f  lib exp(ld)=%.6f   d0=%.6f dK=%.6f" % (x, float(g), float(jnp.exp(ld)), float(us.derivatives[0]), float(us.derivatives[-1])))
# MAF exact zeros
key = jr.PRNGKey(1)
for tr in [Affine(), RationalQuadraticSpline(knots=2, interval=2)]:
    m = MaskedAutoregressive(key, transformer=tr, dim=4, cond_dim=2, nn_width=5, nn_depth=2)
    p, st = eqx.partition(m, eqx.is_inexact_array)
    p = jax.tree_util.tree_map(lambda a: 5*jr.normal(jr.PRNGKey(a.size), a.shape), p)
    m2 = eqx.combine(p, st)
    x = jr.normal(key, (4,)); c = jr.normal(key,(2,))
    J = jax.jacfwd(lambda x: m2.transform(x, c))(x)
    print(type(tr).__name__, "upper entries:", np.asarray(J)[np.triu_indices(4,1)], "\n diag", np.diag(J))
    mlp = unwrap(m2).masked_autoregressive_mlp
    Jp = jax.jacfwd(lambda x: mlp(jnp.hstack((x,c))))(x)
    npar = Jp.shape[0]//4
    viol = [(i,j) for i in range(4) for j in range(4) if j>=i and np.any(np.asarray(Jp)[i*npar:(i+1)*npar, j]!=0)]
    print(" param-dependency violations:", viol)
b = BlockAutoregressiveNetwork(key, dim=4, cond_dim=2, depth=2, block_dim=3)
p, st = eqx.partition(b, eqx.is_inexact_array)
p = jax.tree_util.tree_map(lambda a: 5*jr.normal(jr.PRNGKey(a.size), a.shape), p)
b2 = eqx.combine(p, st)
J = np.asarray(jax.jacfwd(lambda x: b2.transform(x, jnp.ones(2)))(jr.normal(key,(4,))))
print("bnaf upper:", J[np.triu_indices(4,1)], "diag", np.diag(J))
