import jax, jax.numpy as jnp, equinox as eqx, numpy as np, time, itertools
jax.config.update("jax_enable_x64", True)
from flowjax.bisection_search import _bisection_search, AutoregressiveBisectionInverter
# function family g with closed-form; f(x)=g(x)-g(r)
fams = {
 "lin_steep": (lambda x: 1e3*x), "lin_flat": (lambda x: 1e-3*x), "cubic": (lambda x: x**3 + x), "sinh": (lambda x: jnp.sinh(jnp.clip(x,-700,700))),
 "sat_lin_tails": (lambda x: jnp.tanh(x) + 0.01*x), "kinked": (lambda x: jnp.where(x<0.3, 0.1*x, 5*(x-0.3)+0.03)),
}
roots = [0.0, 0.3, -10.0, 10.0, np.nextafter(10.0, 11), np.nextafter(-10.0,-11), 3.14159, -7.777, 1e6+0.5, -1e6-0.25, 123.456, 1e-9]
tols = [1e-2, 1e-5, 1e-7, 1e-9]
res=[]
for fn, g in fams.items():
    for tol in tols:
        for max_iter in [200, 5]:
            def solve(r):
                f = lambda x: g(x) - g(r)
                return _bisection_search(f, lower=jnp.array(-10.0), upper=jnp.array(10.0), tol=tol, max_iter=max_iter)
            rs = jnp.array([r for r in roots if not (fn=="sinh" and abs(r)>700)])
            out, ad, it = jax.jit(jax.vmap(solve))(rs)
            err = np.abs(np.asarray(out)-np.asarray(rs))
            for r,e,a,i in zip(np.asarray(rs), err, np.asarray(ad), np.asarray(it)):
                res.append((fn,tol,max_iter,r,e,int(a),int(i)))
bad = [x for x in res if x[2]==200 and x[4] > x[1] + 4*np.spacing(abs(x[3]))]
print("total", len(res), "over-tol with max_iter=200:", len(bad))
for b in bad[:20]: print(b)
print("max adapt its", max(x[5] for x in res), "max its", max(x[6] for x in res))
short=[x for x in res if x[2]==5]
print("max_iter=5 worst err", max(x[4] for x in short), [x for x in short if x[4]>20][:5])
