import jax, jax.numpy as jnp, equinox as eqx, numpy as np, time
jax.config.update("jax_enable_x64", True)
from flowjax.bijections import *
from flowjax.distributions import *
from flowjax.wrappers import unwrap
import jax.random as jr
key = jr.PRNGKey(0)
# Vmap in_axes_condition=-1
inner = AdditiveCondition(lambda c: c.sum(), shape=(2,), cond_shape=(3,4))
for ax in [0, 1, 2, -1, -2]:
    try:
        v = Vmap(inner, axis_size=5, in_axes_condition=ax)
        print("ax", ax, "cond_shape", v.cond_shape, end=" ")
        out = v.transform(jnp.ones((5,2)), jnp.ones(v.cond_shape))
        print("ok", out.shape)
    except Exception as e:
        print("ERR", type(e).__name__, str(e)[:150])
# error_if behaviours
for name, f in {
 "Uniform bad": lambda: Uniform(1.0, 1.0),
 "StudentT df<=0": lambda: StudentT(0.0),
 "Mixture w<=0": lambda: VmapMixture(eqx.filter_vmap(Normal)(jnp.arange(3.)), jnp.array([1.,0.,2.])),
 "Permute bad": lambda: Permute(jnp.array([0,0,1])),
 "Affine scale<=0": lambda: Affine(0., -1.0),
 "Affine scale=0": lambda: Affine(0., 0.0),
 "Scale neg": lambda: Scale(-1.0),
 "Exponential rate neg": lambda: Exponential(-1.0),
 "TriAff negdiag": lambda: TriangularAffine(0., -jnp.eye(2)),
}.items():
    try:
        o = f(); print(name, "-> constructed", jax.tree_util.tree_leaves(o)[:2])
    except Exception as e:
        print(name, "->", type(e).__module__, type(e).__name__, str(e)[:80].replace("\n"," "))
# MAF dim=1 unconditional
try:
    m = MaskedAutoregressive(key, transformer=Affine(), dim=1, nn_width=4, nn_depth=1)
    print("MAF dim1", m.transform_and_log_det(jnp.array([0.3])), m.inverse(jnp.array([0.3])))
    print(jnp.arange(4) % 0)
except Exception as e:
    print("MAF dim1 err", type(e).__name__, str(e)[:200])
m = MaskedAutoregressive(key, transformer=Affine(), dim=1, cond_dim=2, nn_width=4, nn_depth=1)
print("MAF dim1 cond", m.transform_and_log_det(jnp.array([0.3]), jnp.ones(2)))
# BNAF depth 0
b = BlockAutoregressiveNetwork(key, dim=3, depth=0, block_dim=2)
x = jnp.array([0.1,-0.4,2.0])
y, ld = b.transform_and_log_det(x)
J = jax.jacobian(b.transform)(x)
print("bnaf depth0", ld, jnp.linalg.slogdet(J)[1], b.inverse(y))
