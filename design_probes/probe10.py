import jax, jax.numpy as jnp, equinox as eqx, numpy as np, time, optax
jax.config.update("jax_enable_x64", True)
import jax.random as jr
from flowjax.distributions import *
from flowjax.bijections import *
from flowjax.bijections.planar import _UnconditionalPlanar
from flowjax.flows import *
from flowjax.wrappers import *
from flowjax.train import fit_to_data, fit_to_variational_target
key = jr.PRNGKey(0)
# planar corners
for w,u,b in [([0.,0.],[1.,1.],0.3), ([50.,50.],[-50.,-50.],0.), ([1.,2.],[-3.,-4.],0.1), ([5.,5.],[-5.,-5.],0.0)]:
    p = _UnconditionalPlanar(jnp.array(w), jnp.array(u), jnp.array(b), 0.1)
    uh = p.get_act_scale(); 
    print("planar w",w,"u",u,"-> w.uhat", float(jnp.dot(jnp.array(w),uh)), "fwd", p.transform_and_log_det(jnp.array([0.2,-0.1])))
# raw box extremes
a = Affine(jnp.zeros(2), jnp.ones(2))
a2 = eqx.tree_at(lambda a: a.scale.arr, a, jnp.array([-50., 50.]))
print("affine scale at raw +-50:", unwrap(a2).scale, "f32:", jax.nn.softplus(jnp.array([-50.,50.], jnp.float32)))
s = RationalQuadraticSpline(knots=5, interval=(-2.,3.))
s2 = eqx.tree_at(lambda s: (s.x_pos.args[0], s.y_pos.args[0], s.derivatives.args[0]), s, (jnp.array([50.,-50,50,-50,0]), jnp.array([-50.,-50,-50,-50,50]), jnp.array([-50.,50,0,-50,50,1,-1])))
us = unwrap(s2); print("xpos", us.x_pos, np.diff(us.x_pos), "ypos", us.y_pos, "d", us.derivatives)
# NonTrainable training
d = Normal(jnp.zeros(2), jnp.ones(2))
d = eqx.tree_at(lambda d: d.bijection.loc, d, replace_fn=NonTrainable)
x = jr.normal(key, (50,2))+3
for opt in [optax.adam(0.1), optax.adamw(0.1, weight_decay=0.5), optax.sgd(0.1)]:
    out,_ = fit_to_data(key, d, x, max_epochs=3, optimizer=opt, show_progress=False, batch_size=10)
    print("frozen loc after:", out.bijection.loc.tree, "scale raw:", out.bijection.scale.arr)
# nested wrappers under vmap
def mk(k):
    w = jr.normal(k,(3,3))
    return WeightNormalization(Where(jnp.tril(jnp.ones((3,3),bool)), BijectionReparam(jnp.abs(w)+0.1, SoftPlus()), 0.0))
try:
    ws = eqx.filter_vmap(mk)(jr.split(key,4))
    print("vmapped nested unwrap shape", unwrap(ws).shape)
except Exception as e: print("vmapped nested ERR", type(e).__name__, str(e)[:100])
import equinox._filters as F, equinox._module._module as M
_orig = F.is_inexact_array_like
def _safe(element):
    if hasattr(element, "__jax_array__") and getattr(element, "__jax_array__") is None:
        return isinstance(element, jax.Array) and bool(jnp.issubdtype(element.dtype, jnp.inexact))
    return _orig(element)
F.is_inexact_array_like = _safe; M.is_inexact_array_like = _safe
ws = eqx.filter_vmap(mk)(jr.split(key,4))
un = unwrap(ws)
ind = jnp.stack([unwrap(mk(k)) for k in jr.split(key,4)])
print("vmapped nested == stacked individually:", float(jnp.abs(un-ind).max()))
ws2 = eqx.filter_vmap(eqx.filter_vmap(mk))(jr.split(key,6).reshape(2,3,2))
ind2 = jnp.stack([jnp.stack([unwrap(mk(k)) for k in row]) for row in jr.split(key,6).reshape(2,3,2)])
print("2-level:", float(jnp.abs(unwrap(ws2)-ind2).max()))
