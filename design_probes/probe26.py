import sys, jax, jax.numpy as jnp, equinox as eqx, numpy as np, time
import jax.random as jr
import importlib.util
spec = importlib.util.spec_from_file_location("tb", "/repo/tests/test_bijections/test_bijections.py")
tb = importlib.util.module_from_spec(spec); spec.loader.exec_module(tb)
key = jr.PRNGKey(0)
lattice = [(), (1,), (2,), (3,), (4,), (1,1), (1,3), (3,1), (2,3), (3,2), (3,3), (1,2,3), (2,3,4), (1,3,3), (10,), (1,10), (2,2), (4,1), (1,4,1), (1,1,3)]
holes=[]; ncalls=0
t0=time.time()
for name, mk in tb.bijections.items():
    b = mk()
    good_c = jnp.ones(b.cond_shape) if b.cond_shape is not None else None
    for meth in ["transform", "transform_and_log_det", "inverse", "inverse_and_log_det"]:
        f = getattr(b, meth)
        for s in lattice:
            if s == b.shape: continue
            ncalls+=1
            try:
                f(jnp.full(s, 0.5), good_c); holes.append((name, meth, "x", s))
            except NotImplementedError: pass
            except Exception: pass
        if b.cond_shape is not None:
            for s in lattice + [None]:
                if s == b.cond_shape: continue
                ncalls+=1
                try:
                    f(jnp.full(b.shape, 0.5), None if s is None else jnp.ones(s)); holes.append((name, meth, "cond", s))
                except NotImplementedError: 
                    holes.append((name, meth, "cond-NI-before-check", s))
                except Exception: pass
print("calls", ncalls, "holes", len(holes), "%.0fs"%(time.time()-t0))
for h in holes[:30]: print(h)
