import jax, jax.numpy as jnp, equinox as eqx, numpy as np
jax.config.update("jax_enable_x64", True)
import jax.random as jr
from flowjax.bijections import *
from flowjax.wrappers import unwrap
key = jr.PRNGKey(0)
rng = np.random.default_rng(0)
def aff(shape, seed): 
    r = np.random.default_rng(seed); return Affine(jnp.asarray(r.normal(size=shape)), jnp.asarray(r.uniform(0.5,2,size=shape)))
def chk(name, comb, ref_fn, x, c=None):
    try:
        y, ld = comb.transform_and_log_det(x, c); yr, ldr = ref_fn(x, c)
        ok = np.allclose(y, yr, atol=1e-12) and np.allclose(ld, ldr, atol=1e-12) and y.shape == comb.shape
        xi, ldi = comb.inverse_and_log_det(y, c)
        ok2 = np.allclose(xi, x, atol=1e-9) and np.allclose(ldi, -ldr, atol=1e-9)
        print(name, "shape", comb.shape, "OK" if ok and ok2 else f"MISMATCH fwd={ok} inv={ok2}")
    except Exception as e:
        print(name, "EXC", type(e).__name__, str(e)[:100].replace("\n"," "))
# Concatenate
for shapes, axis in [([(2,3),(2,1),(2,2)], -1), ([(2,3),(4,3)], -2), ([(2,3),(4,3)], 0), ([(1,2,3),(1,2,2)], -1), ([(2,2,3),(2,1,3)], -2), ([(3,),(2,)], -1)]:
    bs = [aff(s, i) for i,s in enumerate(shapes)]
    try: comb = Concatenate(bs, axis=axis)
    except Exception as e: print("Concatenate", shapes, axis, "CTOR EXC", e); continue
    x = jnp.asarray(rng.normal(size=np.concatenate([np.zeros(s) for s in shapes], axis).shape))
    def ref(x, c, bs=bs, axis=axis, shapes=shapes):
        parts = np.split(np.asarray(x), np.cumsum([s[axis] for s in shapes])[:-1], axis)
        outs = [b.transform_and_log_det(jnp.asarray(p)) for b,p in zip(bs, parts)]
        return np.concatenate([o[0] for o in outs], axis), sum(float(o[1]) for o in outs)
    chk(f"Concatenate {shapes} axis={axis}", comb, ref, x)
# Stack
for shape, axis in [((2,3),0),((2,3),1),((2,3),2),((2,3),-1),((2,3),-2),((2,3),-3),((3,),-1),((),0),((),-1)]:
    bs = [aff(shape, i) for i in range(2)]
    try: comb = Stack(bs, axis=axis)
    except Exception as e: print("Stack", shape, axis, "CTOR EXC", e); continue
    exp_shape = np.stack([np.zeros(shape)]*2, axis).shape
    x = jnp.asarray(rng.normal(size=exp_shape))
    def ref(x, c, bs=bs, axis=axis):
        outs = [b.transform_and_log_det(jnp.asarray(np.take(np.asarray(x), i, axis))) for i,b in enumerate(bs)]
        return np.stack([o[0] for o in outs], axis), sum(float(o[1]) for o in outs)
    print("  declared", comb.shape, "expected", exp_shape, end="  ")
    chk(f"Stack {shape} axis={axis}", comb, ref, x)
# Partial
full=(3,4)
for nm, idx in {"int":1, "negint":-1, "slice":slice(0,2), "slicestep":slice(None,None,2), "intarr":jnp.array([0,2]), "boolarr":jnp.array([True,False,True]), "tuple(int,slice)":(1,slice(1,3)), "tuple(arr,arr)":(jnp.array([0,2]),jnp.array([1,3])), "bool2d": jnp.asarray(rng.random(full)>0.5), "ellipsis":(Ellipsis,0), "dup intarr": jnp.array([0,0])}.items():
    sub = np.zeros(full)[idx if not isinstance(idx, jax.Array) else np.asarray(idx)].shape
    try: comb = Partial(aff(sub, 5), idx, full)
    except Exception as e: print("Partial", nm, "CTOR EXC", str(e)[:80]); continue
    x = jnp.asarray(rng.normal(size=full))
    def ref(x, c, idx=idx, comb=comb):
        npidx = tuple(np.asarray(i) if isinstance(i, jax.Array) else i for i in idx) if isinstance(idx, tuple) else (np.asarray(idx) if isinstance(idx, jax.Array) else idx)
        xn = np.array(x); yp, ld = comb.bijection.transform_and_log_det(jnp.asarray(xn[npidx])); xn[npidx] = np.asarray(yp); return xn, float(ld)
    chk(f"Partial {nm}", comb, ref, x)
