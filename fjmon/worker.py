"""Worker process: `python -m fjmon.worker PROP SHARD.json OUT.json`.

Runs one shard of one property's workload against the working tree and writes a result
JSON.  A Python exception escaping the property module is a *harness error*
(inconclusive), never a verdict about flowjax."""
from __future__ import annotations

import importlib
import json
import sys
import time
import traceback


def main(argv):
    prop, shard_path, out_path = argv[1:4]
    shard = json.load(open(shard_path))
    t0 = time.time()
    res = {"shard": shard.get("name", "?")}
    try:
        from fjmon import env

        env.setup(x64=shard.get("x64", True), reach=shard.get("reach", True))
        mod = importlib.import_module(f"fjmon.props.{prop.lower()}")
        out = mod.run_shard(shard)
        res.update(out)
        res["reach"] = env.reach_report()
        res["shim"] = env.shim_ok()
    except BaseException as e:  # noqa: BLE001
        res["harness_error"] = f"{type(e).__name__}: {e}"
        res["traceback"] = traceback.format_exc()[-4000:]
    res["wall_s"] = time.time() - t0
    with open(out_path, "w") as f:
        json.dump(res, f)
    return 0


if __name__ == "__main__":
    sys.exit(main(sys.argv))
