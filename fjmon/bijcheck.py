"""Worker logic shared by C01 (round trip / point agreement) and C02 (log-determinants)."""
from __future__ import annotations

import time

import numpy as np

from fjmon import bijbundle as BB
from fjmon import flowgen
from fjmon import specs as S
from fjmon.common import chash, jsonable, perturb

OVERFLOW_OPS = {"Exp"}


def plan_structures(tier, seed, nshards):
    """Distribute structures over shards: fixed catalogues (each in exactly one shard) + seeded random trees."""
    items = []
    for i, sp in enumerate(S.leaf_catalogue()):
        items.append({"kind": "spec", "spec": sp, "bseed": 1000 + i, "origin": "leaf"})
    for i, sp in enumerate(S.combinator_catalogue()):
        items.append({"kind": "spec", "spec": sp, "bseed": 2000 + i, "origin": "combinator"})
    dims = (2,) if tier != "thorough" else (1, 2, 3)
    for i, c in enumerate(flowgen.flow_cases(dims=dims)):
        items.append({"kind": "flow", "case": c, "bseed": 3000 + i, "origin": "flow"})
    for i, c in enumerate(flowgen.corner_cases()):
        items.append({"kind": "flow", "case": c, "bseed": 3500 + i, "origin": "flow-corner"})
    nrand = 64 if tier != "thorough" else 900
    rng = np.random.default_rng([seed, 101])
    gen = S.Gen(rng)
    for i in range(nrand):
        sp = gen.random_spec()
        items.append({"kind": "spec", "spec": sp, "bseed": int(rng.integers(0, 2**31 - 1)), "origin": "random"})
    shards = [[] for _ in range(nshards)]
    # cost-aware round robin: flows and big trees first
    order = sorted(range(len(items)), key=lambda i: -(_cost(items[i])))
    loads = [0.0] * nshards
    for i in order:
        j = int(np.argmin(loads))
        shards[j].append(items[i])
        loads[j] += _cost(items[i])
    return shards


def _cost(it):
    if it["kind"] == "flow":
        return 6.0 if "block" in it["case"]["factory"] else 4.0
    ops = S.ops_in(it["spec"])
    c = 1.0 + 0.3 * S.size_of(it["spec"])
    if ops & {"MAF", "Coupling", "Scan"}:
        c += 1.5
    if "BNAF" in ops:
        c += 3.0
    return c


def param_modes(tier):
    if tier == "thorough":
        return [("init", 0.0), ("sigma", 3e-5), ("sigma", 0.003), ("sigma", 0.3), ("sigma", 1.0), ("sigma", 2.0), ("sigma", 3.0)]
    # 0.003: "first training steps" - parameters near but not at the initialisation (a regime of its own for formulas that
    # special-case or cancel around the identity)
    return [("init", 0.0), ("sigma", 3e-5), ("sigma", 0.003), ("sigma", 0.5), ("sigma", 1.5)]


def build_item(it, key):
    """-> (bijection, meta) ; meta: shape, cond_shape, tags, has_inv, fwd_numeric, inv_numeric, crit0, ops"""
    if it["kind"] == "spec":
        sp = it["spec"]
        b = S.build(sp, key)
        fn, inn = S.numeric(sp)
        meta = {"shape": S.shape_of(sp), "cond_shape": S.cond_shape_of(sp), "tags": S.tags(sp),
                "has_inv": S.invertible(sp), "fwd_ok": S.forward_ok(sp), "fwd_numeric": fn, "inv_numeric": inn,
                "crit0": BB.criticals_from_spec(sp), "ops": sorted(S.ops_in(sp)), "name": sp["op"],
                "overflow": bool(S.ops_in(sp) & OVERFLOW_OPS)}
        meta["planar"] = "Planar" in S.ops_in(sp)
        # conditioner layers with an unbounded-scale transformer (no minimum scale as in the flow factories): scale
        # underflow cascades to inf for |x| ~ 10 even at initialisation - a modelling hazard, not judged as non-finite
        meta["fragile"] = bool(S.ops_in(sp) & {"transformer:Affine", "transformer:Scale"})
        single = sp["op"] == "BNAF" or (sp["op"] == "Invert" and sp["child"]["op"] == "BNAF")
        meta["multi_numeric"] = (fn or inn) and not single
        meta["pullback"] = it.get("origin") in ("combinator", "random") and sp["op"] in ("Chain", "Scan", "Invert") and not (fn or inn)
        return b, meta
    c = it["case"]
    flow = flowgen.build_flow(c, key)
    return flow.bijection, flow_meta(c)


def flow_meta(c):
    fn, inn = flowgen.flow_numeric(c)
    dim = c["dim"]
    crit = {}
    if c.get("transformer") == "rqs":
        iv = c.get("interval", 3)
        crit["spline_end"] = [float(v) for v in (iv if isinstance(iv, (list, tuple)) else (-iv, iv))]
    if c["factory"] == "triangular_spline_flow":
        mv = float(c.get("tanh_max_val", 3.0))
        crit["spline_end"] = [-1.0, 1.0]
        crit["leaky_switch_x"] = [mv, -mv]
        crit["leaky_switch_y"] = [float(np.tanh(mv)), -float(np.tanh(mv))]
        crit["leaky_to_spline_end"] = _leaky_preimages_of_one(mv)
    if c["factory"] == "block_neural_autoregressive_flow":
        crit["leaky_switch_x"] = [3.0, -3.0]
    z = np.zeros((dim,), dtype=int)
    inv_ok = flowgen.flow_invertible(c)
    return {"shape": (dim,), "cond_shape": None if c["cond_dim"] is None else (c["cond_dim"],), "tags": (z, z),
            "has_inv": inv_ok, "fwd_ok": inv_ok or not c["invert"], "fwd_numeric": fn, "inv_numeric": inn, "crit0": crit,
            "ops": ["flow:" + c["factory"], "Invert" if c["invert"] else "Scan", "Scan"], "name": flowgen.case_name(c),
            "overflow": False, "multi_numeric": bool(fn or inn), "planar": c["factory"] == "planar_flow", "fragile": False, "pullback": not (fn or inn)}


def _leaky_preimages_of_one(max_val):
    """Inputs x for which LeakyTanh(max_val) returns exactly +-1.0 (the spline's interval end in
    triangular_spline_flow) - found by scanning float neighbours of the analytic preimage."""
    import math

    g = math.exp(-2 * (max_val + math.log1p(math.exp(-2 * max_val)) - math.log(2.0)))
    c = math.tanh(max_val) - g * max_val
    x0 = (1.0 - c) / g
    out = []
    x = x0
    for _ in range(200):
        if g * x + c == 1.0:
            out.extend([x, -x])
            break
        x = np.nextafter(x, np.inf if g * x + c < 1.0 else -np.inf)
    return [float(v) for v in out]


class Recorder:
    def __init__(self, shard, prop):
        self.shard, self.prop = shard, prop
        self.violations, self.samples = [], []
        self.counters, self.maxima = {}, {}
        self.hashes, self.nontrivial = set(), set()
        self.required = {}
        self.inconclusive = []
        self.evals = 0

    def count(self, k, n=1):
        self.counters[k] = self.counters.get(k, 0) + int(n)

    def maxi(self, k, v):
        v = float(v)
        if np.isfinite(v) and v > self.maxima.get(k, 0.0):
            self.maxima[k] = v

    def violation(self, mech, summary, it, mode, detail):
        if sum(1 for v in self.violations if v["mechanism"] == mech) >= 6:
            self.count("violations_suppressed_" + mech)
            self.count("violating_cases")
            return
        self.count("violating_cases")
        rs = {k: v for k, v in self.shard.items() if k != "items"}
        rs["items"] = [it]
        rs["only_mode"] = list(mode)
        rs["name"] = "replay"
        self.violations.append({"mechanism": mech, "summary": summary,
                                "case": jsonable({"structure": it, "param_mode": mode, "detail": detail}),
                                "replay": jsonable(rs)})

    def result(self):
        return {"evaluations": self.evals, "nontrivial": len(self.nontrivial), "samples": self.samples[:4],
                "counters": self.counters, "maxima": self.maxima, "violations": self.violations,
                "required": self.required, "inconclusive": self.inconclusive}


def run_shard(shard, prop):
    import jax
    import jax.numpy as jnp
    import jax.random as jr
    from fjmon import env

    x64 = shard.get("x64", True)
    fdt = np.float64 if x64 else np.float32
    T = BB.Tol(x64)
    rec = Recorder(shard, prop)
    modes = [tuple(shard["only_mode"])] if shard.get("only_mode") else param_modes(shard.get("tier", "quick"))
    rng = np.random.default_rng([shard["seed"], 1, shard.get("shard", 0), int(x64)])
    t_start = time.time()
    budget = shard.get("budget_s", 1e9)
    for it in shard["items"]:
        if time.time() - t_start > budget:
            rec.count("structures_skipped_budget")
            continue
        ops = None
        try:
            b0, meta = build_item(it, jr.PRNGKey(it["bseed"]))
        except Exception as e:  # noqa: BLE001
            if it["kind"] == "flow" and not env.shim_ok():
                rec.inconclusive.append(f"flow {it['case']} not buildable without shim")
                continue
            rec.violation(f"build.{type(e).__name__}", f"constructor raised {type(e).__name__}: {str(e)[:200]} for {it.get('spec') or it.get('case')}",
                          it, ("init", 0.0), {"exception": str(e)[:500]})
            continue
        rec.count("structures")
        rec.count("origin_" + it["origin"])
        for o in meta["ops"]:
            rec.count("op_" + o)
        if not meta["fwd_ok"]:
            rec.count("structures_forward_not_implemented")
            continue
        # declared shapes must agree with the generator's NumPy-derived ones (cheap sanity, C08 decides it)
        bundle = BB.Bundle(meta["has_inv"], meta["fwd_numeric"], meta["inv_numeric"], meta["cond_shape"])
        for mode in modes:
            if mode[1] > 0.5 and meta["planar"]:
                # planar's constraint w.u_hat > -1 is unrepresentable in floating point once w.u < about -36
                # (1+softplus(w.u) rounds to 1): no implementation of the paper's parameterisation is a bijection
                # there.  Planar-containing structures are perturbed with sigma <= 0.5 only (DESIGN 4/C11).
                mode = (mode[0], 0.25 if mode[1] < 1.0 else 0.5)
            b = b0 if mode[0] == "init" else perturb(b0, mode[1], it["bseed"] + int(mode[1] * 1e6), clip=8.0)
            if it["kind"] == "spec" and it["spec"].get("zero_w"):
                import equinox as eqx

                b = eqx.tree_at(lambda p: p.params, b, b.params.at[: it["spec"]["dim"]].set(0.0))
            _one_structure(rec, prop, it, meta, b, bundle, mode, rng, T, fdt)
            if it.get("origin") == "leaf" and mode[0] in ("init", "sigma") and mode[1] in (0.0, 0.5):
                _integer_inputs(rec, prop, it, meta, b, mode, rng, T, fdt)
        if getattr(bundle, "mode", "arg") == "closure":
            rec.count("structures_traced_only_as_closure")
    return rec.result()


def planar_min_wtu(b, conds, n, cshape):
    """Smallest raw w.u over the planar layers of `b`, per evaluation point (conditional layers: per condition row).  The
    constraint w.u_hat > -1 is not representable once w.u is below about -36 (float64) / -15 (float32): 1+softplus(w.u)
    rounds to 1 and the computed layer is singular (DESIGN 4/C11), so such points are not judged.  Returns None when a planar
    layer's condition cannot be identified with the outer one."""
    import equinox as eqx
    import jax
    import jax.numpy as jnp
    import flowjax.bijections as B

    nodes = [m for m in jax.tree_util.tree_leaves(b, is_leaf=lambda m: isinstance(m, B.Planar)) if isinstance(m, B.Planar)]
    out = np.full(n, np.inf)
    for node in nodes:
        def wtu(pl, c):
            up = pl.get_planar(c)
            return up._act_scale @ up.weight

        if node.cond_shape is None:
            extra = node.params.ndim - 1
        else:
            if cshape is None or tuple(node.cond_shape) != tuple(cshape):
                return None
            first = [l for l in jax.tree_util.tree_leaves(node.conditioner) if eqx.is_array(l) and l.ndim >= 2]
            extra = first[0].ndim - 2
        f = wtu
        for _ in range(extra):
            f = eqx.filter_vmap(f, in_axes=(eqx.if_array(0), None))
        try:
            if node.cond_shape is None:
                v = np.broadcast_to(np.min(np.asarray(f(node, None), dtype=np.float64)), (n,))
            else:
                v = np.asarray(jax.vmap(lambda c: f(node, c))(jnp.asarray(conds)), dtype=np.float64).reshape(n, -1).min(1)
        except Exception:  # noqa: BLE001
            return None
        out = np.fmin(out, np.where(np.isfinite(v), v, -np.inf))
    return out


def _integer_inputs(rec, prop, it, meta, b, mode, rng, T, fdt):
    """Elementary bijections at integer-valued points handed over as *integer-typed* arrays (or a python int for scalar
    shapes): the methods accept any ArrayLike and leave the dtype to JAX's promotion, so value and log-determinant must be
    those of the same numbers given as floats.  Not applied to Partial / Scan / MaskedAutoregressive (in-place writes into, or a loop
    carry of, the caller's integer array: JAX warns / raises there, the written values are truncated - integer-typed inputs to
    those are outside the stated properties, see DESIGN 10.3) or to restricted domains."""
    import jax.numpy as jnp

    dtag, ctag = meta["tags"]
    ops = set(meta.get("ops", []))
    if np.any(np.asarray(dtag) != 0) or np.any(np.asarray(ctag) != 0) or ops & {"Partial", "Scan", "MAF"} or meta["fwd_numeric"] or meta["inv_numeric"]:
        return
    shape, cshape = meta["shape"], meta["cond_shape"]
    for k in range(4):
        xi = rng.integers(-6, 7, size=shape)
        c = None if cshape is None else jnp.asarray(rng.standard_normal(cshape).astype(fdt))
        reps = [("int array", jnp.asarray(xi, dtype=jnp.int64 if T.x64 else jnp.int32))]
        if shape == ():
            reps.append(("python int", int(xi)))
        for direction in (["transform_and_log_det"] if meta["fwd_ok"] else []) + (["inverse_and_log_det"] if meta["has_inv"] else []):
            try:
                v0, l0 = getattr(b, direction)(jnp.asarray(xi, dtype=fdt), c)
            except Exception:  # noqa: BLE001 - judged by the main pass
                continue
            v0, l0 = np.asarray(v0, dtype=np.float64), float(l0)
            if not (np.all(np.isfinite(v0)) and np.isfinite(l0)):
                continue
            for rn, xr in reps:
                rec.evals += 1
                rec.count("integer_typed_input_calls")
                try:
                    v1, l1 = getattr(b, direction)(xr, c)
                    v1, l1 = np.asarray(v1, dtype=np.float64), float(l1)
                except Exception as e:  # noqa: BLE001
                    rec.violation(f"exception.{type(e).__name__}", f"{meta['name']} [{mode}]: {direction} of the {rn} {np.asarray(xi).tolist()} raised {type(e).__name__}: "
                                  f"{str(e)[:200]}", it, mode, {"x": xi, "representation": rn})
                    return
                rt = 1e-9 if T.x64 else 1e-4
                if prop == "C01":
                    if not np.allclose(v1, v0, rtol=rt, atol=rt):
                        rec.violation("point.integer_input", f"{meta['name']} [{mode}]: {direction} of the {rn} {np.asarray(xi).tolist()} gives {v1.tolist()} but of the same "
                                                             f"numbers as floats {v0.tolist()}", it, mode, {"x": xi, "representation": rn})
                        return
                elif not abs(l1 - l0) <= rt * (1 + abs(l0)):
                    rec.violation("logdet.integer_input", f"{meta['name']} [{mode}]: {direction} of the {rn} {np.asarray(xi).tolist()} reports log-det {l1!r} but {l0!r} for the "
                                                          f"same numbers as floats", it, mode, {"x": xi, "representation": rn})
                    return


def _one_structure(rec, prop, it, meta, b, bundle, mode, rng, T, fdt):
    import jax.numpy as jnp

    shape, cshape = meta["shape"], meta["cond_shape"]
    n = int(np.prod(shape, dtype=int))
    crit = {k: list(v) for k, v in meta["crit0"].items()}
    BB.criticals_from_object(b, crit)
    dtag, ctag = meta["tags"]
    big = 1e6 if T.x64 else 1e4
    xs, xcrit, xhits = BB.make_points(dtag, crit, rng, fdt, big=big)
    cs = None
    if cshape is not None:
        cs = rng.standard_normal((len(xs), *cshape)).astype(fdt)
        cs[::7] = 0.0
        if not meta["planar"]:
            cs[3::11] *= 10.0
    # inner leaves: pull their critical values back to the outer input (perturbed parameters, compositions and flows)
    pb_inv = None
    if meta.get("pullback") and mode[0] != "init" and mode[1] <= 1.0:
        from fjmon import pullback as PB

        pp, pc, st = PB.pulled_back_points(b, "fwd", cshape, rng, fdt, max_steps=2, max_points=8)
        for k_, v_ in st.items():
            rec.count(k_, v_)
        slots = np.where(xcrit)[0][::-1][: len(pp)]
        for j_, sl in enumerate(slots):
            xs[sl] = pp[j_]
            xhits[sl] = {"pulled_back_inner_critical"}
            if cs is not None and pc is not None and pc[j_] is not None:
                cs[sl] = pc[j_]
        if meta["has_inv"]:
            pb_inv = PB.pulled_back_points(b, "inv", cshape, rng, fdt, max_steps=2, max_points=6)
            for k_, v_ in pb_inv[2].items():
                rec.count("codomain_" + k_, v_)
    try:
        D = bundle.dom(b, jnp.asarray(xs), None if cs is None else jnp.asarray(cs))
    except Exception as e:  # noqa: BLE001  - raised by the library while executing/tracing its methods
        rec.violation(f"exception.{type(e).__name__}", f"{meta['name']} [{mode}]: library raised {type(e).__name__}: "
                      f"{str(e)[:300]} on domain points", it, mode, {"exception": str(e)[:1500]})
        return
    N = len(xs)
    rec.evals += N
    for hs in xhits:
        for h in hs:
            rec.count("boundary_hit_" + h)
    y = D["y"].astype(np.float64)
    x = xs.astype(np.float64)
    nx, ny = BB.absmax(x), BB.absmax(y)
    fin_y = np.isfinite(y.reshape(N, -1)).all(1)
    # ----- Jacobian of the forward map at x (float64 on the host)
    if "J" in D:
        J = D["J"].astype(np.float64)
        nJ, nJi, Ji = BB._norms(J)
    else:
        Jg = D["Jg"].astype(np.float64)
        nJi, nJ, J = BB._norms(Jg)  # J_f = inv(Jg): norms swap
        Ji = Jg
    amp_inv = amp_fwd = None
    if meta["inv_numeric"] or meta["fwd_numeric"]:
        sk = BB.skeel(np.nan_to_num(J), np.nan_to_num(Ji))
        tp = BB.tri_prop(J if meta["inv_numeric"] else Ji)
        amp = np.fmax(1 + sk, np.nan_to_num(tp, nan=0.0))
        if meta["multi_numeric"]:  # inner layers amplify each other's search errors; whole-map norms are the proxy
            amp = amp * 10.0 * np.fmax(1.0, np.fmax(np.nan_to_num(nJ, nan=1e300), np.nan_to_num(nJi, nan=1e300)))
        if meta["inv_numeric"]:
            amp_inv = amp
        else:
            amp_fwd = amp
    case_hash = [chash(it.get("spec") or it.get("case"), list(mode), xs[i].tobytes().hex()) for i in (0, N // 2, N - 1)]
    base_hash = chash(it.get("spec") or it.get("case"), it["bseed"], list(mode))

    def det(i, **kw):
        d = {"x": x[i], "y": y[i], "condition": None if cs is None else cs[i], "x_is_critical_directed": bool(xcrit[i]),
             "hits": sorted(xhits[i]), "dtype": "float64" if T.x64 else "float32", "name": meta["name"]}
        d.update(kw)
        return d

    moderate_params = mode[0] == "init"
    nonfinite = ~fin_y
    if nonfinite.any():
        rec.count("nonfinite_forward_outputs", nonfinite.sum())
        nonfinite = nonfinite & (nx <= 30.0)
    if nonfinite.any():
        if meta["overflow"] or meta["fragile"] or not moderate_params:
            rec.count("nonfinite_gated_overflow_or_extreme_params", nonfinite.sum())
        else:
            i = int(np.where(nonfinite)[0][0])
            rec.violation("nonfinite.forward", f"{meta['name']} [{mode}]: transform returned a non-finite value at a finite "
                                               f"domain point x={x[i].tolist()}", it, mode, det(i))
    ok = fin_y & np.isfinite(nJ) & np.isfinite(nJi)
    rec.count("singular_or_nonfinite_jacobian_gated", (fin_y & ~ok).sum())
    wtu_lim = -30.0 if T.x64 else -12.0
    if meta["planar"]:
        pw = planar_min_wtu(b, cs, N, cshape)
        if pw is not None:
            rec.count("planar_points_gated_constraint_unrepresentable", int((ok & (pw < wtu_lim)).sum()))
            ok = ok & (pw >= wtu_lim)

    if prop == "C01":
        # (1) point of *_and_log_det == plain point
        y2 = D["y2"].astype(np.float64)
        tf = T.forward(np.nan_to_num(nJ, nan=0, posinf=1e300), nx, ny, amp_fwd)
        e = BB.absmax(y - y2)
        m = fin_y & (e > tf)
        rec.maxi("point_forward_err_over_tol", np.max(np.where(fin_y, e / tf, 0)) if N else 0)
        if m.any():
            i = int(np.where(m)[0][0])
            rec.violation("point.forward", f"{meta['name']} [{mode}]: transform_and_log_det point differs from transform by {e[i]:.3g} (tol {tf[i]:.3g})",
                          it, mode, det(i, y_plain=y2[i]))
        if meta["has_inv"]:
            xr = D["xr"].astype(np.float64)
            xr2 = D["xr2"].astype(np.float64)
            trt, ill = T.roundtrip(nJ, nJi, nx, ny, amp_inv)
            if amp_fwd is not None:  # y itself carries the search error, amplified by the analytic inverse
                trt = trt + (10 * T.tol_inv * amp_fwd + 4 * T.spacing(ny) * amp_fwd) * nJi
                ill = ~(trt <= T.gate * (1 + nx))
            cmp_ = ok & ~ill
            rec.count("roundtrip_domain_compared", cmp_.sum())
            rec.count("roundtrip_domain_ill_conditioned", (ok & ill).sum())
            e = BB.absmax(xr - x)
            e = np.where(np.isfinite(e), e, np.inf)
            ratio = np.where(cmp_, e / trt, 0)
            rec.maxi("roundtrip_domain_err_over_tol" + ("_numeric" if amp_inv is not None else "") + ("" if T.x64 else "_f32"), ratio.max() if N else 0)
            bad = cmp_ & (e > trt)
            if bad.any():
                i = int(np.where(bad)[0][np.argmax(ratio[bad])])
                rec.violation("roundtrip.domain", f"{meta['name']} [{mode}]: inverse(transform(x)) differs from x by {e[i]:.3g} "
                                                  f"(tol {trt[i]:.3g}, |J|={nJ[i]:.3g}, |J^-1|={nJi[i]:.3g}) at x={x[i].tolist()}",
                              it, mode, det(i, x_roundtrip=xr[i], tol=trt[i]))
            # plain inverse vs and-log-det inverse
            ti = K_eps_inv(T, nJi, nx, ny, amp_inv)
            e2 = BB.absmax(xr - xr2)
            e2 = np.where(np.isfinite(e2), e2, np.where(np.isfinite(BB.absmax(xr)) | np.isfinite(BB.absmax(xr2)), np.inf, 0))
            bad = ok & (e2 > ti)
            rec.maxi("point_inverse_err_over_tol", np.max(np.where(ok, e2 / ti, 0)) if N else 0)
            if bad.any():
                i = int(np.where(bad)[0][0])
                rec.violation("point.inverse", f"{meta['name']} [{mode}]: inverse_and_log_det point differs from inverse by {e2[i]:.3g} (tol {ti[i]:.3g})",
                              it, mode, det(i, x_plain=xr2[i], x_and_log_det=xr[i]))
            nt = cmp_ & (BB.absmax(y - x) > 1e-6 * (1 + nx))
            for i in np.where(nt)[0][:: max(1, int(nt.sum()) // 8)][:8]:
                rec.nontrivial.add(chash(base_hash, int(i)))
            rec.count("nontrivial_cases_total", nt.sum())
            if nt.any() and len(rec.samples) < 4 and it["origin"] in ("random", "flow"):
                i = int(np.where(nt)[0][0])
                rec.samples.append(jsonable({"structure": it.get("spec") or it.get("case"), "param_mode": mode, "x": x[i], "y": y[i],
                                             "x_roundtrip": xr[i], "err": e[i], "tol": trt[i]}))
            rec.nontrivial_count = getattr(rec, "nontrivial_count", 0) + int(nt.sum())
    else:  # C02
        ld = D["ld"].astype(np.float64)
        if ld.shape != (N,):
            rec.violation("logdet.shape", f"{meta['name']}: forward log-det has shape {ld.shape[1:]}, expected ()", it, mode, {})
            return
        ref = BB.slogdet_abs(J) if "J" in D else -BB.slogdet_abs(D["Jg"].astype(np.float64))
        tl, ill = T.logdet(ref, n, nJ, nJi)
        numextra = 0.0
        if meta["multi_numeric"]:
            # intermediate points of later layers differ by their search errors: "the point the library returned"
            # cannot be reproduced layer by layer from outside
            numextra = 10 * T.tol_inv * (amp_inv if amp_inv is not None else amp_fwd) * 10
            tl = tl + numextra
        cmp_ = ok & ~ill & np.isfinite(ref)
        rc = make_recheck(bundle, b, xs, cs, T, rng, sign=+1, crit_flag=xcrit, numeric=(meta["fwd_numeric"] or meta["inv_numeric"]), rec=rec, n=n)
        _cmp_logdet(rec, "logdet.forward", ld, ref, tl, cmp_, xcrit, n, meta, it, mode, det, allow_tie=("J" in D), recheck=rc)
        rec.count("logdet_forward_compared", cmp_.sum())
        rec.count("logdet_ill_conditioned", (ok & ill).sum())
        nt = cmp_ & (np.abs(ref) > 1e-6)
        rec.count("nontrivial_cases_total", nt.sum())
        for i in np.where(nt)[0][:: max(1, int(nt.sum()) // 8)][:8]:
            rec.nontrivial.add(chash(base_hash, int(i)))
        if nt.any() and len(rec.samples) < 4 and it["origin"] in ("random", "flow"):
            i = int(np.where(nt)[0][0])
            rec.samples.append(jsonable({"structure": it.get("spec") or it.get("case"), "param_mode": mode, "x": x[i],
                                         "log_det": ld[i], "autodiff_log_abs_det": ref[i], "tol": tl[i]}))
        if meta["has_inv"]:
            ldi = D["ldi"].astype(np.float64)
            if "Jr" in D:
                Jr = D["Jr"].astype(np.float64)
                refi = -BB.slogdet_abs(Jr)
                nJr, nJri, _ = BB._norms(Jr)
            else:
                refi = BB.slogdet_abs(D["Jg"].astype(np.float64))
                nJr, nJri = nJ, nJi
            tli, illi = T.logdet(refi, n, nJr, nJri)
            tli = tli + numextra
            cmpi = ok & ~illi & np.isfinite(refi) & np.isfinite(nJr) & np.isfinite(nJri)
            rc = make_recheck(bundle, b, D["xr"], cs, T, rng, sign=-1, crit_flag=xcrit, numeric=(meta["fwd_numeric"] or meta["inv_numeric"]), rec=rec, n=n)
            _cmp_logdet(rec, "logdet.inverse", ldi, refi, tli, cmpi, xcrit, n, meta, it, mode, det, allow_tie=("Jr" in D), tie_sign=-1, recheck=rc)
            rec.count("logdet_inverse_compared", cmpi.sum())

    # ---------------------------------------------------------------- codomain direction --
    if not meta["has_inv"]:
        return
    ys, ycrit, yhits = BB.make_points(ctag, crit, rng, fdt, n_rand=24, n_crit=32, n_big=6, big=big, side="y")
    cs2 = None
    if cshape is not None:
        cs2 = rng.standard_normal((len(ys), *cshape)).astype(fdt)
    if pb_inv is not None:
        slots = np.where(ycrit)[0][::-1][: len(pb_inv[0])]
        for j_, sl in enumerate(slots):
            ys[sl] = pb_inv[0][j_]
            yhits[sl] = {"pulled_back_inner_critical"}
            if cs2 is not None and pb_inv[1] is not None and pb_inv[1][j_] is not None:
                cs2[sl] = pb_inv[1][j_]
    try:
        C = bundle.cod(b, jnp.asarray(ys), None if cs2 is None else jnp.asarray(cs2))
    except Exception as e:  # noqa: BLE001
        rec.violation(f"exception.{type(e).__name__}", f"{meta['name']} [{mode}]: library raised {type(e).__name__}: "
                      f"{str(e)[:300]} on codomain points", it, mode, {"exception": str(e)[:1500]})
        return
    M = len(ys)
    rec.evals += M
    for hs in yhits:
        for h in hs:
            rec.count("boundary_hit_codomain_" + h)
    yc = ys.astype(np.float64)
    xp = C["xp"].astype(np.float64)
    fin = np.isfinite(xp.reshape(M, -1)).all(1)
    if "J" in C:
        J2 = C["J"].astype(np.float64)
        nJ2, nJi2, Ji2 = BB._norms(J2)
    else:
        Jg2 = C["Jg"].astype(np.float64)
        nJi2, nJ2, J2 = BB._norms(Jg2)
        Ji2 = Jg2
    nxp, nyc = BB.absmax(xp), BB.absmax(yc)
    ok2 = fin & np.isfinite(nJ2) & np.isfinite(nJi2)
    if meta["planar"]:
        pw2 = planar_min_wtu(b, cs2, M, cshape)
        if pw2 is not None:
            rec.count("planar_points_gated_constraint_unrepresentable", int((ok2 & (pw2 < wtu_lim)).sum()))
            ok2 = ok2 & (pw2 >= wtu_lim)
    amp2 = None
    if meta["inv_numeric"] or meta["fwd_numeric"]:
        sk = BB.skeel(np.nan_to_num(J2), np.nan_to_num(Ji2))
        tp = BB.tri_prop(J2 if meta["inv_numeric"] else Ji2)
        amp2 = np.fmax(1 + sk, np.nan_to_num(tp, nan=0.0))
        if meta["multi_numeric"]:
            amp2 = amp2 * 10.0 * np.fmax(1.0, np.fmax(np.nan_to_num(nJ2, nan=1e300), np.nan_to_num(nJi2, nan=1e300)))

    def det2(i, **kw):
        d = {"y": yc[i], "x_inverse": xp[i], "condition": None if cs2 is None else cs2[i], "hits": sorted(yhits[i]),
             "dtype": "float64" if T.x64 else "float32", "name": meta["name"]}
        d.update(kw)
        return d

    rec.count("nonfinite_inverse_outputs", (~fin).sum())
    nf2 = ~fin & (BB.absmax(yc) <= 30.0)
    if nf2.any() and not meta["overflow"] and not meta["fragile"] and moderate_params:
        # a moderate codomain point whose preimage is not finite (parameters near initialisation, no overflow op)
        i = int(np.where(nf2)[0][0])
        rec.violation("nonfinite.inverse", f"{meta['name']} [{mode}]: inverse returned a non-finite value at codomain point y={yc[i].tolist()}",
                      it, mode, det2(i))
    if prop == "C01":
        yp = C["yp"].astype(np.float64)
        # y -> x -> y: roles of J and J^-1 exchanged; numeric amplification applies to the numeric step
        t, ill = T.roundtrip(nJi2, nJ2, nyc, nxp, None)
        if amp2 is not None:
            extra = (10 * T.tol_inv * amp2 + 4 * T.spacing(nxp) * amp2) * (nJ2 if meta["inv_numeric"] else 1.0)
            t = t + extra
            ill = ~(t <= T.gate * (1 + nyc))
        cmp2 = ok2 & ~ill
        e = BB.absmax(yp - yc)
        e = np.where(np.isfinite(e), e, np.inf)
        rec.count("roundtrip_codomain_compared", cmp2.sum())
        rec.count("roundtrip_codomain_ill_conditioned", (ok2 & ill).sum())
        ratio = np.where(cmp2, e / t, 0)
        rec.maxi("roundtrip_codomain_err_over_tol" + ("_numeric" if amp2 is not None else "") + ("" if T.x64 else "_f32"), ratio.max() if M else 0)
        bad = cmp2 & (e > t)
        if bad.any():
            i = int(np.where(bad)[0][np.argmax(ratio[bad])])
            rec.violation("roundtrip.codomain", f"{meta['name']} [{mode}]: transform(inverse(y)) differs from y by {e[i]:.3g} "
                                                f"(tol {t[i]:.3g}) at y={yc[i].tolist()} (inverse gave {xp[i].tolist()})",
                          it, mode, det2(i, y_roundtrip=yp[i], tol=t[i]))
        xp2 = C["xp2"].astype(np.float64)
        ti = K_eps_inv(T, nJi2, nxp, nyc, amp2 if meta["inv_numeric"] else None)
        e2 = BB.absmax(xp - xp2)
        bad = ok2 & (np.where(np.isfinite(e2), e2, np.inf) > ti)
        if bad.any():
            i = int(np.where(bad)[0][0])
            rec.violation("point.inverse", f"{meta['name']} [{mode}]: inverse_and_log_det point differs from inverse by {e2[i]:.3g} at a codomain point",
                          it, mode, det2(i, x_plain=xp2[i]))
        nt = cmp2 & (BB.absmax(xp - yc) > 1e-6 * (1 + nyc))
        rec.count("nontrivial_cases_total", nt.sum())
        for i in np.where(nt)[0][:: max(1, int(nt.sum()) // 8)][:8]:
            rec.nontrivial.add(chash(base_hash, "cod", int(i)))
    else:
        ldi = C["ldi"].astype(np.float64)
        if "J" in C:
            refi = -BB.slogdet_abs(J2)
        else:
            refi = BB.slogdet_abs(C["Jg"].astype(np.float64))
        tli, illi = T.logdet(refi, n, nJ2, nJi2)
        if meta["multi_numeric"]:
            tli = tli + 10 * T.tol_inv * amp2 * 10
        cmpi = ok2 & ~illi & np.isfinite(refi)
        rc = make_recheck(bundle, b, C["xp"], cs2, T, rng, sign=-1, crit_flag=ycrit, numeric=(meta["fwd_numeric"] or meta["inv_numeric"]), rec=rec, n=n)
        _cmp_logdet(rec, "logdet.inverse", ldi, refi, tli, cmpi, ycrit, n, meta, it, mode, det2, allow_tie=("J" in C), tie_sign=-1, recheck=rc)
        rec.count("logdet_inverse_compared", cmpi.sum())
        nt = cmpi & (np.abs(refi) > 1e-6)
        rec.count("nontrivial_cases_total", nt.sum())
        for i in np.where(nt)[0][:: max(1, int(nt.sum()) // 8)][:8]:
            rec.nontrivial.add(chash(base_hash, "cod", int(i)))


def K_eps_inv(T, nJi, nx, ny, amp):
    t = T.K * T.eps * (1 + nx + (1 + np.nan_to_num(nJi, nan=0, posinf=1e300)) * ny) + T.floor * 1e-3 * (1 + nx)
    if amp is not None:
        t = t + 10 * T.tol_inv * amp + 4 * T.spacing(nx) * amp
    return t


def _cmp_logdet(rec, mech, ld, ref, tl, cmp_, crit_flag, n, meta, it, mode, det, allow_tie, tie_sign=1, recheck=None,
                pts=None, conds=None, kmax=64):
    """Accept ld == ref, or (autodiff halves a row at every min/max tie) ld == ref + k log 2.  Candidates that
    fail are re-examined at float neighbours of the evaluation point (second pass): a kink within rounding
    distance makes both one-sided derivatives legitimate, and the spread of the oracle between adjacent
    neighbours measures the oracle's own rounding noise."""
    d = ld - ref
    err0 = np.abs(d)
    if allow_tie:
        k = np.clip(np.round(tie_sign * d / BB.LOG2), 0, kmax)
        errk = np.abs(d - tie_sign * k * BB.LOG2)
    else:
        k = np.zeros_like(d)
        errk = err0
    err0 = np.where(np.isfinite(err0), err0, np.inf)
    errk = np.where(np.isfinite(errk), errk, np.inf)
    tie = cmp_ & (err0 > tl) & (errk <= tl) & (k > 0)
    rec.count("logdet_tie_accepted_at_critical_points", (tie & crit_flag).sum())
    tie_noncrit = tie & ~crit_flag
    rec.count("logdet_tie_accepted_at_noncritical_points", tie_noncrit.sum())
    bad = cmp_ & (errk > tl)
    ratio = np.where(cmp_, errk / tl, 0)
    rec.maxi(mech.replace(".", "_") + "_err_over_tol", ratio[~bad].max() if (~bad).any() else 0)
    reported = False
    if bad.any():
        idx = np.where(bad)[0]
        idx = idx[np.argsort(-ratio[idx])]
        confirmed = []
        if recheck is not None and np.isfinite(ld[idx]).any():
            for i in idx[:40]:
                if not np.isfinite(ld[i]):
                    confirmed.append((int(i), None))
                    break
                okk, info = recheck(int(i), float(ld[i]), float(tl[i]), tie_sign)
                if okk:
                    rec.count("logdet_accepted_after_neighbour_check")
                else:
                    confirmed.append((int(i), info))
                    break
            else:
                if len(idx) > 40:
                    rec.count("logdet_candidates_unverified", len(idx) - 40)
        else:
            confirmed = [(int(idx[0]), None)]
        if confirmed:
            i, info = confirmed[0]
            rec.violation(mech, f"{meta['name']} [{mode}]: reported log-det {ld[i]!r} vs autodiff log|det J| {ref[i]!r} "
                                f"(diff {d[i]:.3g}, tol {tl[i]:.3g}; {int(bad.sum())} candidate points"
                                f"{'; nearest neighbour-oracle distance %.3g' % info if info is not None else ''})",
                          it, mode, det(i, log_det=ld[i], autodiff=ref[i], tol=tl[i]))
            reported = True
    if not reported and tie_noncrit.sum() > max(2, 1e-3 * cmp_.sum()):
        i = int(np.where(tie_noncrit)[0][0])
        rec.violation(mech + ".log2", f"{meta['name']} [{mode}]: log-det off by a multiple of log 2 at {int(tie_noncrit.sum())} ordinary points",
                      it, mode, det(i, log_det=ld[i], autodiff=ref[i]))


_TANH_REC = {"on": False, "min": None, "installed": False}


def tanh_saturation(b, pt, cond, which):
    """Smallest 1 - t^2 over the values t that Tanh layers produce (transform) / receive (inverse) while the real object evaluates
    `which` at `pt` - measured by a harness monitor on the real Tanh methods.  The float64 autodiff oracle computes a tanh layer's
    derivative as 1 - t^2, which keeps only eps / (1 - t^2) relative accuracy once the layer saturates (the library's own
    log-gradient formula does not suffer from this)."""
    import jax
    import jax.numpy as jnp
    import flowjax.bijections as B

    if not _TANH_REC["installed"]:
        def cb(v):
            v = np.asarray(v, dtype=np.float64)
            if v.size:
                m = float(np.min(1.0 - np.minimum(v * v, 1.0)))
                _TANH_REC["min"] = m if _TANH_REC["min"] is None else min(_TANH_REC["min"], m)

        for meth, on_output in (("transform", True), ("transform_and_log_det", True), ("inverse", False), ("inverse_and_log_det", False)):
            orig = getattr(B.Tanh, meth)

            def wrapped(self, x, condition=None, _orig=orig, _out=on_output):
                res = _orig(self, x, condition)
                if _TANH_REC["on"]:
                    val = (res[0] if isinstance(res, tuple) else res) if _out else jnp.asarray(x)
                    jax.debug.callback(cb, val)
                return res

            setattr(B.Tanh, meth, wrapped)
        _TANH_REC["installed"] = True
    _TANH_REC["on"], _TANH_REC["min"] = True, None
    try:
        getattr(b, which)(jnp.asarray(pt), None if cond is None else jnp.asarray(cond))
        jax.effects_barrier()
    except Exception:  # noqa: BLE001
        pass
    finally:
        _TANH_REC["on"] = False
    return _TANH_REC["min"]


def make_recheck(bundle, b, base_pts, base_conds, T, rng, sign=+1, n=1, allow_tie=True, crit_flag=None, numeric=False, rec=None, which="transform"):
    """Second pass: oracle over float neighbours of base_pts[i] (joint nudges of 1..4096 ulp, 12 sign patterns;
    for numerically inverted structures also absolute nudges spanning the search tolerance)."""
    import jax.numpy as jnp

    N = len(base_pts)
    fdt = base_pts.dtype
    mags = [1, 2, 4, 64, 4096]

    def recheck(i, ldv, tol, tie_sign):
        x0 = base_pts[i].astype(np.float64)
        sp = np.spacing(np.abs(base_pts[i])).astype(np.float64)
        sg = np.where(x0 >= 0, 1.0, -1.0)
        pats = [np.ones(x0.shape), -np.ones(x0.shape), -sg, sg] + [rng.choice([-1.0, 1.0], x0.shape) for _ in range(8)]
        var = []
        for p_ in pats:
            for m in mags:
                var.append((x0 + m * p_ * sp).astype(fdt))
        if numeric:
            for p_ in pats[:6]:
                for a in (1e-8, 1e-7, 1e-6, 1e-5):
                    var.append((x0 + a * p_ * (1 + np.abs(x0))).astype(fdt))
        var = np.asarray(var)
        rs = []
        for s0 in range(0, len(var), N):
            chunk = var[s0:s0 + N]
            pts = np.concatenate([chunk, np.repeat(base_pts[i][None], N - len(chunk), 0)]) if len(chunk) < N else chunk
            cs = None if base_conds is None else jnp.asarray(np.repeat(base_conds[i][None], N, 0))
            D = bundle.dom(b, jnp.asarray(pts), cs)
            if "J" in D:
                r = BB.slogdet_abs(D["J"].astype(np.float64)[: len(chunk)])
            else:
                r = -BB.slogdet_abs(D["Jg"].astype(np.float64)[: len(chunk)])
            rs.append(sign * r)
        r = np.concatenate(rs)
        r_ulp = r[: len(pats) * len(mags)].reshape(len(pats), len(mags))
        # local sensitivity of the oracle per ulp of input (jumps > 1e-2 are kinks, not noise)
        steps = np.abs(r_ulp[:, 0] - r_ulp[:, 1])
        steps = steps[np.isfinite(steps) & (steps < 1e-2)]
        noise = 8 * float(steps.max()) if len(steps) else 0.0
        rr = r[np.isfinite(r)]
        if len(rr) == 0:
            return True, None  # oracle not evaluable around the point: gated
        # envelope criterion: the reported value must lie within the range the oracle takes over the float
        # neighbourhood (both one-sided derivatives at a kink, everything the oracle's rounding noise produces in a
        # sensitive region), extended by tol + noise; shifted by k log 2 for min/max ties.  At critical-directed
        # points and for numerically inverted structures several coordinates can sit on kinks behind a mixing layer
        # (2^m one-sided combinations, not enumerable from outside): the envelope is then widened by its own width.
        W = float(rr.max() - rr.min())
        widen = W if (W > 10 * tol and (numeric or crit_flag is None or bool(crit_flag[i]))) else 0.0
        lo, hi = rr.min() - tol - noise - widen, rr.max() + tol + noise + widen
        ks = np.arange(0, 65) if allow_tie else np.arange(0, 1)
        if numeric:  # the oracle differentiates the other direction there: a tie shifts it the other way
            ks = np.arange(-64, 65)
        inside = (ldv >= lo + tie_sign * ks * BB.LOG2) & (ldv <= hi + tie_sign * ks * BB.LOG2)
        if inside.any():
            return True, 0.0
        dist = np.minimum(np.abs(ldv - (lo + tie_sign * ks * BB.LOG2)), np.abs(ldv - (hi + tie_sign * ks * BB.LOG2))).min()
        # third pass: a saturated tanh layer inside the structure - the oracle's own derivative 1 - t^2 is only accurate to
        # eps / (1 - t^2) there, and float neighbours of the *outer* input need not move t at all
        sat = tanh_saturation(b, base_pts[i], None if base_conds is None else base_conds[i], which)
        if sat is not None and sat < 1e-6:
            allow = 4 * n * T.eps / max(sat, 1e-300)
            if dist <= allow:
                if rec is not None:
                    rec.count("logdet_accepted_oracle_noise_at_saturated_tanh")
                return True, 0.0
        return False, float(dist)

    return recheck
