"""C02 - reported log-determinants equal log|det J| of the forward map (autodiff oracle), inverse = -forward, scalar."""
from fjmon import bijcheck

PROPERTY = "C02"
LEVEL = "exploration"
NEEDS_SHIM = True
RULE = ("structures = every leaf class x constructor variants + hand-written instance of every combinator (axis/index variants) "
        "+ the bijection of every flow factory x invert x cond x transformer + seeded random expression trees (depth<=3); "
        "x parameter modes (init, perturbed raw leaves sigma 0.5/1.5 [thorough: 0.3..3]) x boundary-directed inputs "
        "(random N(0,{0.1,1,10}), exact critical values of every leaf with +-1,2 ulp neighbours, magnitudes to 1e6) in both "
        "directions (domain points and independently drawn codomain points). A case = (structure, parameter draw, input, direction); "
        "non-trivial = compared (oracle well-conditioned) AND |log|det J|| > 1e-6; distinct_nontrivial counts up to 8 "
        "hashed representatives per (structure, parameter draw, direction) (conservative lower bound; total in counters.nontrivial_cases_total)")
ASSUMPTIONS = [
    "oracle = jax.jacfwd of the plain transform in float64 (slogdet on the host); tolerance 1e-8(1+|ref|) + K eps n |J^-1|(1+|J|), gated when the oracle term exceeds 1e-3",
    "autodiff halves a Jacobian row at every min/max tie (jnp.clip at a spline end): a difference of k log 2 is accepted (counted); "
    "candidates that still fail are re-examined against the oracle's range over float neighbours (1..4096 ulp) of the evaluation point",
    "inverse log-dets are compared at the point the library returned",
    "numerically inverted maps: search tolerance amplified by max(1+Skeel condition, triangular propagation factor)",
    "non-finite outputs are only alarms for expressions without Exp (overflow-capable)",
    "equinox shim (harness process only) so that BNAF / triangular-spline flows are constructible on this jax/equinox pair",
]
ANCHOR_FILES = ["bijections/bijection.py", "bijections/affine.py", "bijections/rational_quadratic_spline.py", "bijections/tanh.py",
                "bijections/planar.py", "bijections/coupling.py", "bijections/masked_autoregressive.py",
                "bijections/block_autoregressive_network.py", "bijections/chain.py", "bijections/concatenate.py",
                "bijections/jax_transforms.py", "bijections/utils.py", "flows.py", "bisection_search.py"]
REQUIRED_FUNCS = ["bijections/rational_quadratic_spline.py:RationalQuadraticSpline.derivative",
                  "bijections/rational_quadratic_spline.py:RationalQuadraticSpline.inverse_and_log_det",
                  "bijections/tanh.py:LeakyTanh.transform_and_log_det", "bijections/tanh.py:_tanh_log_grad",
                  "bijections/planar.py:_UnconditionalPlanar.transform_and_log_det",
                  "bijections/block_autoregressive_network.py:BlockAutoregressiveNetwork.transform_and_log_det",
                  "bijections/block_autoregressive_network.py:logmatmulexp",
                  "bijections/chain.py:Chain.transform_and_log_det", "bijections/chain.py:Chain.inverse_and_log_det",
                  "bijections/jax_transforms.py:Scan.transform_and_log_det", "bijections/jax_transforms.py:Vmap.transform_and_log_det",
                  "bijections/concatenate.py:Concatenate.transform_and_log_det", "bijections/concatenate.py:Stack.inverse_and_log_det",
                  "bijections/affine.py:TriangularAffine.transform_and_log_det", "bijections/affine.py:Affine.inverse_and_log_det",
                  "bijections/masked_autoregressive.py:MaskedAutoregressive.inverse_and_log_det",
                  "bijections/coupling.py:Coupling.transform_and_log_det", "bijections/utils.py:Partial.transform_and_log_det"]


def plan(tier, seed):
    nsh = 16
    groups = bijcheck.plan_structures(tier, seed, nsh)
    shards = [{"name": f"C02-{i}", "shard": i, "items": g, "x64": True, "timeout": 3400} for i, g in enumerate(groups)]
    # float32 pass (the library's default precision): every leaf class and flow factory; thorough adds the combinators
    f32 = bijcheck.plan_structures("quick", seed + 1, 8)
    keep = ("leaf", "flow") if tier != "thorough" else ("leaf", "flow", "combinator")
    shards += [{"name": f"C02-f32-{i}", "shard": 100 + i, "items": [it for it in g if it["origin"] in keep], "x64": False,
                "timeout": 3400} for i, g in enumerate(f32)]
    return shards


def run_shard(shard):
    out = bijcheck.run_shard(shard, "C02")
    c = out["counters"]
    if not shard.get("replay"):
        out["required"] = {k: c.get(k, 0) for k in ("logdet_forward_compared", "logdet_inverse_compared")}
    return out
