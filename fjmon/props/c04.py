"""C04 - flow densities integrate to one and the sampler draws from them.

Global monitor: exp(log_prob) of the real distribution is integrated over the whole space by adaptive
cell-subdivision cubature in u-space (x = s u / (1-u^2), u in (-1,1)^d; 3-point vs 2-point Gauss-Legendre tensor
rules, cells split while the rule difference exceeds their share of the budget or their mass exceeds 2e-3), with a
convergence-certified, asymmetric three-valued verdict; the sampler is tested against the cubature's own cell
masses (probability-integral transform + KS in 1-D, 8x8 super-cell masses + marginals in 2-D) with fixed seeds and
DKW / Hoeffding bounds at false-alarm probability 1e-9."""
from __future__ import annotations

import math

import numpy as np

PROPERTY = "C04"
LEVEL = "exploration"
NEEDS_SHIM = True
RULE = ("distributions = the five flow factories (dim 1 where defined, dim 2) x invert x {unconditional, conditional at 2 conditions} x "
        "transformer {affine, rational-quadratic spline} + hand-built Transformed (spline, leaky tanh, planar leaky-relu, BNAF depth 0-2, "
        "affine/triangular) with raw parameters perturbed by sigma in {0.3, 0.6}. A case = (distribution, parameter draw, condition): one "
        "cubature run (1e4-3e6 density evaluations) + one sampler test; non-trivial = parameters perturbed (density is not the base "
        "density) and the cubature verdict is conclusive; distinct = hashed (distribution, sigma, seed, condition)")
ASSUMPTIONS = [
    "verdict: held if |I-1| <= tol_q + E (E = summed |rule difference|); violated only if |I-1| > tol_q + 2E and the estimate is certified "
    "converged (no cell force-accepted at the depth / evaluation cap, depth-capped estimates d-4, d-2, d agree within tol_q/4, tol_q/8) or "
    "I > 1 + tol_q + 2E; otherwise inconclusive (counted, never an alarm). tol_q = 2e-3 (1-D), 5e-3 (2-D)",
    "resolution: mass defects below 0.2 % (1-D) / 1 % (2-D) and sampler/density discrepancies below ~2.5 % in CDF distance are not detectable",
    "sampler tests only for cases whose cubature verdict is 'held'; bounds: DKW sqrt(ln(2/1e-9)/(2n)) + 2 tol_q + max cell mass (1-D), "
    "Hoeffding+union over 64 super-cells + tol_q (2-D), each plus the cubature's own error estimate E; all randomness is seeded",
    "equinox shim (harness process only) for BNAF / triangular-spline flows",
]
ANCHOR_FILES = ["flows.py", "distributions.py", "bijections/block_autoregressive_network.py", "bijections/tanh.py", "bijections/rational_quadratic_spline.py"]
REQUIRED_FUNCS = ["flows.py:coupling_flow", "flows.py:masked_autoregressive_flow", "flows.py:block_neural_autoregressive_flow", "flows.py:planar_flow",
                  "flows.py:triangular_spline_flow", "distributions.py:AbstractTransformed._log_prob", "distributions.py:AbstractTransformed._sample",
                  "bijections/tanh.py:LeakyTanh.inverse_and_log_det", "bijections/rational_quadratic_spline.py:RationalQuadraticSpline.derivative"]

G3X, G3W = np.polynomial.legendre.leggauss(3)
G2X, G2W = np.polynomial.legendre.leggauss(2)


def cases(tier):
    C = []
    for dim in (1, 2):
        for inv in (True, False):
            for cd in (None, 2):
                if dim == 2:
                    C.append({"kind": "flow", "factory": "coupling_flow", "dim": dim, "invert": inv, "cond_dim": cd, "transformer": None, "flow_layers": 2, "nn_width": 5})
                    C.append({"kind": "flow", "factory": "coupling_flow", "dim": dim, "invert": inv, "cond_dim": cd, "transformer": "rqs", "flow_layers": 2, "nn_width": 5})
                C.append({"kind": "flow", "factory": "masked_autoregressive_flow", "dim": dim, "invert": inv, "cond_dim": cd, "transformer": None, "flow_layers": 2, "nn_width": 5})
                C.append({"kind": "flow", "factory": "masked_autoregressive_flow", "dim": dim, "invert": inv, "cond_dim": cd, "transformer": "rqs", "flow_layers": 2, "nn_width": 5})
                C.append({"kind": "flow", "factory": "planar_flow", "dim": dim, "invert": inv, "cond_dim": cd, "negative_slope": 0.2, "flow_layers": 2})
                C.append({"kind": "flow", "factory": "triangular_spline_flow", "dim": dim, "invert": inv, "cond_dim": cd, "flow_layers": 2, "knots": 4})
                C.append({"kind": "flow", "factory": "block_neural_autoregressive_flow", "dim": dim, "invert": inv, "cond_dim": cd, "flow_layers": 1, "nn_block_dim": 3, "nn_depth": 1})
    # legal but unusual factory arguments: no hidden layers, one flow layer, narrow / non-symmetric spline intervals (mass outside
    # the interval), one-knot triangular splines, block dimension 1
    maf, cf = "masked_autoregressive_flow", "coupling_flow"
    C += [{"kind": "flow", "factory": maf, "dim": 2, "invert": True, "cond_dim": None, "transformer": None, "flow_layers": 2, "nn_width": 5, "nn_depth": 0},
          {"kind": "flow", "factory": maf, "dim": 1, "invert": False, "cond_dim": 2, "transformer": None, "flow_layers": 2, "nn_width": 5, "nn_depth": 0},
          {"kind": "flow", "factory": maf, "dim": 2, "invert": False, "cond_dim": None, "transformer": "rqs", "flow_layers": 1, "nn_width": 4, "nn_depth": 0, "knots": 3, "interval": 1.5},
          {"kind": "flow", "factory": cf, "dim": 2, "invert": True, "cond_dim": 2, "transformer": "rqs", "flow_layers": 2, "nn_width": 4, "nn_depth": 0, "knots": 2, "interval": (-1.0, 2.0)},
          {"kind": "flow", "factory": cf, "dim": 2, "invert": False, "cond_dim": None, "transformer": None, "flow_layers": 1, "nn_width": 1, "nn_depth": 2},
          {"kind": "flow", "factory": "triangular_spline_flow", "dim": 2, "invert": True, "cond_dim": None, "flow_layers": 1, "knots": 1, "tanh_max_val": 1.0},
          {"kind": "flow", "factory": "block_neural_autoregressive_flow", "dim": 2, "invert": True, "cond_dim": None, "flow_layers": 1, "nn_block_dim": 1, "nn_depth": 0}]
    for dim in (1, 2):
        for orient in ("as_is", "inverted"):
            C.append({"kind": "hand", "which": "spline", "dim": dim, "orient": orient})
            C.append({"kind": "hand", "which": "leaky_tanh", "dim": dim, "orient": orient})
            C.append({"kind": "hand", "which": "triaffine_leaky", "dim": dim, "orient": orient})
        C.append({"kind": "hand", "which": "planar", "dim": dim, "orient": "as_is"})
        for orient in ("as_is", "inverted"):  # scalar scale broadcast against a vector loc (and a location-scale base built the same way)
            C.append({"kind": "hand", "which": "affine_scalar_scale", "dim": dim, "orient": orient})
        # planar layers with O(1) weights (|w| > 1, w.u of both signs): the regime in which the invertibility projection of u matters
        C.append({"kind": "hand", "which": "planar_big_tanh", "dim": dim, "orient": "as_is"})
        C.append({"kind": "hand", "which": "planar_big_leaky", "dim": dim, "orient": "as_is"})
        for depth in (0, 2):
            C.append({"kind": "hand", "which": "bnaf", "dim": dim, "orient": "inverted", "depth": depth})
        # flows onto a restricted sample space (a positive-valued target): all the mass must lie inside the support - the density
        # is integrated over the whole of R^d, so a finite value outside the support shows as mass above one
        C.append({"kind": "hand", "which": "tail_exp", "dim": dim, "orient": "as_is"})
        C.append({"kind": "hand", "which": "tail_softplus", "dim": dim, "orient": "as_is"})
    return C


def plan(tier, seed):
    C = cases(tier)
    if tier != "thorough":
        # quick: every case at sigma 0.3, a seed-dependent half of them also at sigma 0.6
        sig_list = [0.3]
        sel = C
    else:
        sig_list = [0.3, 0.6, 1.0]
        sel = C
    jobs = []
    for i, c in enumerate(sel):
        for sg in sig_list:
            jobs.append({"case": c, "sigma": sg, "pseed": 40 + i})
        if tier != "thorough" and (i + seed) % 2 == 0:
            jobs.append({"case": c, "sigma": 0.6, "pseed": 140 + i})
    # one job per shard (the orchestrator runs 16 at a time): a job that hangs in the bisection search (e.g. a layer that is
    # not onto) only loses itself to the watchdog, and violations found by the other jobs are still reported
    cost = lambda j: (30 if "block" in str(j["case"].get("factory")) and not j["case"]["invert"] else 6) * (3 if j["case"]["dim"] == 2 else 1)
    jobs.sort(key=lambda j: -cost(j))
    return [{"name": f"C04-{i}", "shard": i, "jobs": [j], "x64": True, "timeout": 900} for i, j in enumerate(jobs)]


def arch_of(c):
    return f"{c.get('factory') or 'hand:' + c['which']}/{'inv' if c.get('invert', c.get('orient') == 'inverted') else 'fwd'}"


# ------------------------------------------------------------------ cubature ---------------
def u_to_x(U, s):
    return s * U / (1 - U**2), np.prod(s * (1 + U**2) / (1 - U**2) ** 2, -1)


def x_to_u(x, s):
    x = np.asarray(x, dtype=np.float64)
    with np.errstate(all="ignore"):
        u = np.where(x == 0, 0.0, (-s + np.sqrt(s * s + 4 * x * x)) / (2 * np.where(x == 0, 1.0, x)))
    return u


def cell_rule(ev, lo, hi, gx, gw, s):
    d = lo.shape[1]
    c, h = (lo + hi) / 2, (hi - lo) / 2
    if d == 1:
        U = c[:, None, :] + h[:, None, :] * gx[None, :, None]
        W = gw[None, :] * h[:, 0, None]
    else:
        G = np.stack(np.meshgrid(gx, gx, indexing="ij"), -1).reshape(-1, 2)
        U = c[:, None, :] + h[:, None, :] * G[None]
        W = (gw[:, None] * gw[None, :]).reshape(-1)[None] * h[:, 0, None] * h[:, 1, None]
    X, Jac = u_to_x(U, s)
    lp = ev(X.reshape(-1, d)).reshape(U.shape[:-1])
    with np.errstate(all="ignore"):
        val = np.exp(lp) * Jac * W
    val = np.where(np.isfinite(val), val, 0.0)
    return val.sum(1)


def cubature(ev, d, s=3.0, n0=None, tol_q=5e-3, max_depth=14, max_evals=3e6, mass_split=2e-3):
    n0 = n0 or (1024 if d == 1 else 64)
    e = np.linspace(-1, 1, n0 + 1)
    if d == 1:
        lo, hi = e[:-1, None], e[1:, None]
    else:
        lo = np.stack(np.meshgrid(e[:-1], e[:-1], indexing="ij"), -1).reshape(-1, 2)
        hi = np.stack(np.meshgrid(e[1:], e[1:], indexing="ij"), -1).reshape(-1, 2)
    total, err, evals, depth, forced = 0.0, 0.0, 0, 0, 0
    total_conv, err_conv = 0.0, 0.0  # cells accepted on their own merits (never force-accepted): a lower bound of the mass, the density being >= 0
    accepted_before = 0.0
    capped = []  # estimate if refinement had been capped at each depth
    leaves_lo, leaves_hi, leaves_m = [], [], []
    npts = 5 if d == 1 else 13
    while len(lo):
        I3 = cell_rule(ev, lo, hi, G3X, G3W, s)
        I2 = cell_rule(ev, lo, hi, G2X, G2W, s)
        evals += len(lo) * npts
        capped.append(accepted_before + float(I3.sum()))
        E = np.abs(I3 - I2)
        vol = np.prod(hi - lo, 1) / (2.0**d)
        bad = (E > np.maximum(tol_q / 4 * vol, 1e-14)) | (I3 > mass_split)
        total_conv += float(I3[~bad].sum())
        err_conv += float(E[~bad].sum())
        if depth >= max_depth or evals > max_evals:
            forced += int(bad.sum())
            bad[:] = False
        total += float(I3[~bad].sum())
        err += float(E[~bad].sum())
        accepted_before = total
        leaves_lo.append(lo[~bad]); leaves_hi.append(hi[~bad]); leaves_m.append(I3[~bad])
        lo_b, hi_b = lo[bad], hi[bad]
        if len(lo_b) == 0:
            break
        mid = (lo_b + hi_b) / 2
        nl, nh = [], []
        for corner in np.ndindex(*([2] * d)):
            sel = np.asarray(corner, bool)
            nl.append(np.where(sel, mid, lo_b))
            nh.append(np.where(sel, hi_b, mid))
        lo, hi = np.concatenate(nl), np.concatenate(nh)
        depth += 1
    L = {"lo": np.concatenate(leaves_lo), "hi": np.concatenate(leaves_hi), "m": np.concatenate(leaves_m)}
    return {"I": total, "E": err, "evals": evals, "depth": depth, "forced": forced, "capped": capped, "leaves": L, "n0": n0, "s": s,
            "I_conv": total_conv, "E_conv": err_conv}


def verdict(res, tol_q):
    I, E = res["I"], res["E"]
    if abs(I - 1) <= tol_q + E:
        return "held"
    cap = res["capped"]
    dlev = len(cap) - 1
    conv = res["forced"] == 0
    if dlev >= 2:
        conv = conv and abs(cap[dlev] - cap[dlev - 2]) < tol_q / 8
    if dlev >= 4:
        conv = conv and abs(cap[dlev] - cap[dlev - 4]) < tol_q / 4
    if I > 1 + tol_q + 2 * E and res["forced"] == 0:
        return "violated"
    # the cells that converged on their own already hold more than one unit of mass (a density is non-negative, so the cells still
    # being refined / force-accepted can only add to it): e.g. a density that is positive on an unbounded region outside the support
    if res.get("I_conv", 0.0) > 1 + 10 * tol_q + 2 * res.get("E_conv", 0.0):
        return "violated"
    if abs(I - 1) > tol_q + 2 * E and conv:
        return "violated"
    return "inconclusive"


def run_shard(shard):
    import equinox as eqx
    import jax
    import jax.numpy as jnp
    import jax.random as jr
    import flowjax.bijections as B
    import flowjax.distributions as D
    from fjmon import env, flowgen
    from fjmon.bijcheck import Recorder
    from fjmon.common import chash, jsonable, perturb

    rec = Recorder(shard, "C04")
    CH = 1 << 14

    def build(c, key):
        dim = c["dim"]
        if c["kind"] == "flow":
            return flowgen.build_flow(c, key)
        base = D.StandardNormal((dim,)) if c["which"] != "leaky_tanh" else D.StudentT(jnp.full((dim,), 5.0))
        k = jr.split(key, 4)
        if c["which"] == "spline":
            b = B.Vmap(eqx.filter_vmap(lambda: B.RationalQuadraticSpline(knots=5, interval=3), axis_size=dim)(), in_axes=eqx.if_array(0))
        elif c["which"] == "leaky_tanh":
            b = B.Chain([B.Affine(jr.normal(k[0], (dim,)), jnp.exp(0.3 * jr.normal(k[1], (dim,)))), B.LeakyTanh(1.0, (dim,))])
        elif c["which"] == "triaffine_leaky":
            b = B.Chain([B.TriangularAffine(jr.normal(k[0], (dim,)), jnp.eye(dim) * 1.3 + 0.5 * jr.normal(k[1], (dim, dim))), B.LeakyTanh(2.0, (dim,)),
                         B.Affine(jnp.zeros(dim), jnp.full((dim,), 2.0))])
        elif c["which"] == "planar":
            b = B.Invert(B.Chain([B.Planar(k[0], dim=dim, negative_slope=0.3), B.Planar(k[1], dim=dim, negative_slope=0.6)]))
        elif c["which"] == "affine_scalar_scale":
            base = D.Normal(jr.normal(k[2], (dim,)), 1.7)
            b = B.Chain([B.Affine(jr.normal(k[0], (dim,)), 2.5), B.LeakyTanh(2.0, (dim,)), B.Affine(jnp.zeros(dim), jnp.asarray(0.4))])
        elif c["which"] in ("planar_big_tanh", "planar_big_leaky"):
            ns = None if c["which"].endswith("tanh") else 0.3
            def big(kk, force=None):
                pl = B.Planar(kk, dim=dim, negative_slope=ns)
                w = 1.6 * jr.normal(jr.fold_in(kk, 1), (dim,))
                u = 1.6 * jr.normal(jr.fold_in(kk, 2), (dim,))
                if force is not None:
                    # the regimes in which the projection of u matters, by construction rather than by luck of the draw:
                    # |w| >= 1.8 with w.u = +3 (first layer) / w.u = -6 (second layer)
                    w = w * jnp.maximum(1.0, 1.8 / jnp.linalg.norm(w))
                    u = u + (force - jnp.dot(w, u)) * w / jnp.dot(w, w)
                u = jnp.where(jnp.dot(w, u) < -20.0, -u, u)  # keep w.u representable (DESIGN 4/C11)
                return eqx.tree_at(lambda p_: p_.params, pl, jnp.concatenate([w, u, 0.5 * jr.normal(jr.fold_in(kk, 3), (1,))]))
            b = B.Invert(B.Chain([big(k[0], 3.0), big(k[1], -6.0)]))
        elif c["which"] == "bnaf":
            b = B.BlockAutoregressiveNetwork(k[0], dim=dim, depth=c["depth"], block_dim=2)
        elif c["which"] in ("tail_exp", "tail_softplus"):
            inner = B.Chain([B.Affine(0.3 * jr.normal(k[0], (dim,)), jnp.exp(0.2 * jr.normal(k[1], (dim,)) - 0.7)),
                             B.Vmap(eqx.filter_vmap(lambda: B.RationalQuadraticSpline(knots=4, interval=2), axis_size=dim)(), in_axes=eqx.if_array(0))])
            b = B.Chain([inner, B.Exp((dim,)) if c["which"] == "tail_exp" else B.SoftPlus((dim,))])
        else:
            raise KeyError(c["which"])
        if c["orient"] == "inverted":
            b = B.Invert(b)
        return D.Transformed(base, b)

    for job in shard["jobs"]:
        c, sigma = job["case"], job["sigma"]
        if shard.get("items") and shard["items"][0].get("job") != job:
            continue
        it = {"job": job, "origin": "catalogue"}
        d = c["dim"]
        tol_q = 2e-3 if d == 1 else 5e-3
        name = f"{arch_of(c)} dim={d} cond={c.get('cond_dim')} tr={c.get('transformer')} sigma={sigma}"
        try:
            dist0 = build(c, jr.PRNGKey(job["pseed"]))
        except Exception as e:  # noqa: BLE001
            if not env.shim_ok():
                rec.inconclusive.append("flow not buildable without shim")
                continue
            rec.violation(f"build.{type(e).__name__}", f"{name}: constructor raised {type(e).__name__}: {str(e)[:200]}", it, ("init", 0.0), {})
            continue
        planar = "planar" in str(c.get("factory", c.get("which")))
        dist = perturb(dist0, (0.1 if "planar_big" in str(c.get("which")) else min(sigma, 0.5)) if planar else sigma, job["pseed"] + 1, clip=6.0)
        numeric_lp = (c.get("factory") == "block_neural_autoregressive_flow" and not c["invert"])
        conds = [None]
        if c.get("cond_dim"):
            r = np.random.default_rng([job["pseed"], 4])
            conds = [jnp.asarray(r.normal(size=c["cond_dim"])) for _ in range(2)]
        f = eqx.filter_jit(lambda dd, X, cc: dd.log_prob(X, cc))
        for ci, cond in enumerate(conds):
            def ev(X, _cond=cond):
                out = np.empty(len(X))
                for i in range(0, len(X), CH):
                    blk = X[i:i + CH]
                    n = len(blk)
                    if n < CH:
                        blk = np.concatenate([blk, np.zeros((CH - n, d))])
                    out[i:i + n] = np.asarray(f(dist, jnp.asarray(blk), _cond))[:n]
                return out
            rec.count("cubature_runs")
            rec.count("arch_" + arch_of(c))
            try:
                res = cubature(ev, d, tol_q=tol_q, n0=(256 if d == 1 else 24) if numeric_lp else None, max_evals=2e5 if numeric_lp else 3e6,
                               max_depth=8 if numeric_lp else 14)
            except Exception as e:  # noqa: BLE001
                rec.violation(f"exception.{type(e).__name__}", f"{name}: log_prob on the quadrature grid raised {type(e).__name__}: {str(e)[:200]}", it, ("init", 0.0), {})
                break
            rec.evals += 1
            rec.count("density_evaluations", res["evals"])
            vd = verdict(res, tol_q)
            rec.count("cubature_" + vd)
            rec.maxi("mass_defect_over_budget_held", abs(res["I"] - 1) / (tol_q + res["E"]) if vd == "held" else 0.0)
            summary = {"distribution": name, "condition": None if cond is None else np.asarray(cond), "integral": res["I"], "rule_difference_sum": res["E"],
                       "evaluations": res["evals"], "depth": res["depth"], "force_accepted_cells": res["forced"], "depth_capped_estimates": res["capped"][-5:], "verdict": vd}
            if vd == "violated":
                rec.violation("mass", f"{name}: exp(log_prob) integrates to {res['I']:.5f} (rule difference {res['E']:.1e}, {res['evals']:.2e} evaluations, depth "
                                      f"{res['depth']}, mass of the cells that converged on their own {res.get('I_conv', float('nan')):.5f}, capped estimates {['%.5f' % v_ for v_ in res['capped'][-5:]]})", it, ("init", 0.0), summary)
                continue
            if vd != "held":
                continue
            if sigma > 0:
                rec.nontrivial.add(chash(name, job["pseed"], ci))
                rec.count("conclusive_" + arch_of(c))
            if len(rec.samples) < 3:
                rec.samples.append(jsonable(summary))
            # -------------------------------------------------- sampler vs cubature masses --
            Lf = res["leaves"]
            s_ = res["s"]
            try:
                key = jr.PRNGKey(1000 + job["pseed"] + ci)
                n = 20000 if d == 1 else 50000
                if c.get("factory") == "block_neural_autoregressive_flow" and c["invert"]:
                    n = 4000  # sampling needs the bisection search per draw
                smp = np.asarray(dist.sample(key, (n,), cond), dtype=np.float64)
            except NotImplementedError:
                rec.count("sampler_direction_not_implemented")  # planar tanh has no analytic inverse (documented)
                continue
            except Exception as e:  # noqa: BLE001
                rec.violation(f"exception.{type(e).__name__}", f"{name}: sample raised {type(e).__name__}: {str(e)[:200]}", it, ("init", 0.0), {})
                continue
            rec.count("sampler_tests")
            if not np.all(np.isfinite(smp)):
                rec.violation("sampler.nonfinite", f"{name}: {int((~np.isfinite(smp)).sum())} non-finite sample entries", it, ("init", 0.0), {})
                continue
            U = x_to_u(smp, s_)
            if d == 1:
                order = np.argsort(Lf["lo"][:, 0])
                lo1, hi1, m1 = Lf["lo"][order, 0], Lf["hi"][order, 0], Lf["m"][order]
                cum = np.concatenate([[0.0], np.cumsum(m1)]) / max(res["I"], 1e-300)
                us = np.sort(U[:, 0])
                k = np.clip(np.searchsorted(hi1, us, side="left"), 0, len(lo1) - 1)
                frac = np.clip((us - lo1[k]) / (hi1[k] - lo1[k]), 0, 1)
                F = cum[k] + frac * (cum[k + 1] - cum[k])
                ks = max(np.max(np.arange(1, n + 1) / n - F), np.max(F - np.arange(0, n) / n))
                bound = math.sqrt(math.log(2 / 1e-9) / (2 * n)) + 2 * tol_q + float(m1.max()) + res["E"]
                rec.maxi("sampler_1d_ks_over_bound", ks / bound)
                if ks > bound:
                    rec.violation("sampler.1d", f"{name}: KS distance between {n} samples and the cubature CDF is {ks:.4f} > {bound:.4f}", it, ("init", 0.0), dict(summary, ks=ks))
            else:
                edges = np.linspace(-1, 1, 9)
                cx = np.clip(np.searchsorted(edges, (Lf["lo"][:, 0] + Lf["hi"][:, 0]) / 2) - 1, 0, 7)
                cy = np.clip(np.searchsorted(edges, (Lf["lo"][:, 1] + Lf["hi"][:, 1]) / 2) - 1, 0, 7)
                P = np.zeros((8, 8))
                np.add.at(P, (cx, cy), Lf["m"])
                P /= max(res["I"], 1e-300)
                sx = np.clip(np.searchsorted(edges, U[:, 0]) - 1, 0, 7)
                sy = np.clip(np.searchsorted(edges, U[:, 1]) - 1, 0, 7)
                Q = np.zeros((8, 8))
                np.add.at(Q, (sx, sy), 1.0 / n)
                bound = math.sqrt(math.log(2 * 64 / 1e-9) / (2 * n)) + tol_q + res["E"]
                dev = float(np.abs(P - Q).max())
                rec.maxi("sampler_2d_cell_dev_over_bound", dev / bound)
                if dev > bound:
                    i, j = np.unravel_index(np.argmax(np.abs(P - Q)), P.shape)
                    rec.violation("sampler.2d", f"{name}: super-cell ({i},{j}) has density mass {P[i, j]:.4f} but sample frequency {Q[i, j]:.4f} "
                                                f"(|diff| {dev:.4f} > {bound:.4f}, n={n})", it, ("init", 0.0), summary)
                # marginals on the 64-column grid
                g = np.linspace(-1, 1, 65)
                for ax in (0, 1):
                    col = np.clip(np.searchsorted(g, (Lf["lo"][:, ax] + Lf["hi"][:, ax]) / 2) - 1, 0, 63)
                    pm = np.zeros(64)
                    np.add.at(pm, col, Lf["m"])
                    Fm = np.cumsum(pm) / max(res["I"], 1e-300)
                    Fe = np.searchsorted(np.sort(U[:, ax]), g[1:], side="right") / n
                    ksm = float(np.max(np.abs(Fm - Fe)))
                    mb = math.sqrt(math.log(2 / 1e-9) / (2 * n)) + 2 * tol_q + res["E"]
                    rec.maxi("sampler_2d_marginal_ks_over_bound", ksm / mb)
                    if ksm > mb:
                        rec.violation("sampler.2d.marginal", f"{name}: marginal {ax} KS {ksm:.4f} > {mb:.4f}", it, ("init", 0.0), summary)
    out = rec.result()
    if not shard.get("replay") and shard["jobs"]:
        out["required"] = {"cubature_held": rec.counters.get("cubature_held", 0)}
        # every architecture x orientation must have at least one conclusive case over the whole run (summed over shards)
        for job in shard["jobs"]:
            a = "conclusive_" + arch_of(job["case"])
            out["required"][a] = rec.counters.get(a, 0)
    out["notes"] = {}
    return out
