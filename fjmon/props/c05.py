"""C05 - named distribution families match their textbook densities and samplers.

Reference-model monitor: closed-form textbook log-densities written in float64 NumPy (primary) and scipy.stats
(second opinion; points where the two references disagree are excluded and counted) are compared with the public
log_prob at points inside / on the edge of / outside the support and far in the tails; accessors are compared with
the constructor arguments; samplers are tested by per-coordinate Kolmogorov-Smirnov distance against the scipy CDF
with the DKW bound (false-alarm probability 1e-9 per test); mixtures against logsumexp of the weighted components
and under weight rescaling."""
from __future__ import annotations

import math

import numpy as np

PROPERTY = "C05"
LEVEL = "exploration"
RULE = ("every family {Normal, LogNormal, MultivariateNormal, Uniform, Gumbel, Cauchy, StudentT, Laplace, Exponential, Logistic, "
        "StandardNormal, VmapMixture of each} x parameter arrays of broadcastable shapes (rank 0-2, loc/scale/df broadcasting against "
        "each other) x magnitudes 1e-3..1e3 (accessors 1e-6..1e6) x evaluation points inside / on the edge of / outside the support "
        "and in the far tails. A case = (family, parameters, point) for densities, (family, parameters) for accessors and samplers; "
        "non-trivial = the reference log-density is finite and the parameters are not the defaults (loc 0, scale 1); distinct = "
        "hashed (family, parameter bytes, point index) representatives (up to 8 per parameter set)")
ASSUMPTIONS = [
    "references: closed-form NumPy log-densities (scipy.special.gammaln for Student-t), scipy.stats as second opinion; where the two "
    "references disagree by more than 1e-9 relative the point is excluded and counted",
    "on the edge of a support both the interior limit and -inf are accepted (rounding of the standardisation decides the side), NaN never; a lower end hit exactly (x == minval, x == 0 for Exponential) must follow the reference convention (in the support)",
    "sampler clause: n=20000, per-coordinate KS distance <= sqrt(ln(2/1e-9)/(2n)) = 0.0231 (DKW); all randomness seeded",
    "density tolerance 1e-9 (1+|ref|) per event in float64",
    "denormal inputs are not used (XLA CPU flushes denormals to zero); the smallest magnitudes next to 0 are +-2.3e-308",
]
ANCHOR_FILES = ["distributions.py", "bijections/affine.py", "wrappers.py"]
REQUIRED_FUNCS = ["distributions.py:Normal.__init__", "distributions.py:LogNormal.__init__", "distributions.py:MultivariateNormal.__init__",
                  "distributions.py:Uniform.__init__", "distributions.py:Gumbel.__init__", "distributions.py:Cauchy.__init__",
                  "distributions.py:StudentT.__init__", "distributions.py:Laplace.__init__", "distributions.py:Exponential.__init__",
                  "distributions.py:Logistic.__init__", "distributions.py:VmapMixture._log_prob", "distributions.py:VmapMixture._sample",
                  "distributions.py:_StandardGumbel._log_prob", "distributions.py:_StandardStudentT._sample",
                  "distributions.py:MultivariateNormal.covariance", "distributions.py:Exponential.rate", "distributions.py:Uniform.maxval"]

FAMILIES = ["Normal", "LogNormal", "Uniform", "Gumbel", "Cauchy", "StudentT", "Laplace", "Exponential", "Logistic", "StandardNormal",
            "MultivariateNormal", "Mixture"]
LOG2PI = math.log(2 * math.pi)


def plan(tier, seed):
    nsh = 16
    per = 2 if tier != "thorough" else 22
    nsamp = 1 if tier != "thorough" else 4
    sh = [{"name": f"C05-{i}", "shard": i, "per_family": per, "samplers_per_family": nsamp if i % 2 == 0 or tier == "thorough" else 0,
           "x64": True, "timeout": 3000} for i in range(nsh)]
    # single precision, parameter magnitudes 1e-6..1e3: densities and accessors of the scalar families (where a constrained
    # parameter's reparameterisation loses digits it shows in float32 first)
    sh += [{"name": f"C05-f32-{i}", "shard": 100 + i, "f32": True, "reps": 3 if tier != "thorough" else 40, "x64": False, "timeout": 3000} for i in range(2)]
    return sh


# ------------------------------------------------------------------ textbook references --
def ref_logpdf(fam, p, x):
    """Per-coordinate textbook log-density (NumPy float64, broadcasting)."""
    from scipy.special import gammaln

    with np.errstate(all="ignore"):
        if fam in ("Normal", "StandardNormal"):
            z = (x - p["loc"]) / p["scale"]
            return -0.5 * z * z - np.log(p["scale"]) - 0.5 * LOG2PI
        if fam == "LogNormal":
            lx = np.log(np.where(x > 0, x, 1.0))
            z = (lx - p["loc"]) / p["scale"]
            return np.where(x > 0, -0.5 * z * z - np.log(p["scale"]) - lx - 0.5 * LOG2PI, -np.inf)
        if fam == "Uniform":
            inside = (x >= p["minval"]) & (x <= p["maxval"])
            return np.where(inside, -np.log(p["maxval"] - p["minval"]), -np.inf)
        if fam == "Gumbel":
            z = (x - p["loc"]) / p["scale"]
            return -(z + np.exp(-z)) - np.log(p["scale"])
        if fam == "Cauchy":
            z = (x - p["loc"]) / p["scale"]
            return -math.log(math.pi) - np.log(p["scale"]) - np.log1p(z * z)
        if fam == "StudentT":
            z = (x - p["loc"]) / p["scale"]
            nu = p["df"]
            return gammaln((nu + 1) / 2) - gammaln(nu / 2) - 0.5 * np.log(nu * math.pi) - np.log(p["scale"]) - (nu + 1) / 2 * np.log1p(z * z / nu)
        if fam == "Laplace":
            z = (x - p["loc"]) / p["scale"]
            return -np.abs(z) - math.log(2) - np.log(p["scale"])
        if fam == "Exponential":
            return np.where(x >= 0, np.log(p["rate"]) - p["rate"] * x, -np.inf)
        if fam == "Logistic":
            z = (x - p["loc"]) / p["scale"]
            return -z - 2 * np.logaddexp(0.0, -z) - np.log(p["scale"])
    raise KeyError(fam)


def scipy_dist(fam, p):
    from scipy import stats

    if fam in ("Normal", "StandardNormal"):
        return stats.norm(p["loc"], p["scale"])
    if fam == "LogNormal":
        return stats.lognorm(s=p["scale"], scale=np.exp(p["loc"]))
    if fam == "Uniform":
        return stats.uniform(loc=p["minval"], scale=p["maxval"] - p["minval"])
    if fam == "Gumbel":
        return stats.gumbel_r(p["loc"], p["scale"])
    if fam == "Cauchy":
        return stats.cauchy(p["loc"], p["scale"])
    if fam == "StudentT":
        return stats.t(p["df"], p["loc"], p["scale"])
    if fam == "Laplace":
        return stats.laplace(p["loc"], p["scale"])
    if fam == "Exponential":
        return stats.expon(scale=1 / p["rate"])
    if fam == "Logistic":
        return stats.logistic(p["loc"], p["scale"])
    raise KeyError(fam)


def edge_mask(fam, p, x):
    """Points on the edge of the support up to floating-point resolution of the standardisation (x-loc)/scale:
    there both conventions (interior limit, -inf) are accepted."""
    if fam == "Uniform":
        band = 4 * np.spacing(np.abs(p["minval"]) + np.abs(p["maxval"]))
        return (np.abs(x - p["minval"]) <= band) | (np.abs(x - p["maxval"]) <= band)
    if fam in ("Exponential", "LogNormal"):
        return np.abs(x) <= 1e-290
    return np.zeros(np.shape(x), bool)


def _interior_point(fam, p, x):
    if fam == "Uniform":
        return np.broadcast_to((p["minval"] + p["maxval"]) / 2, np.shape(x))
    return np.full(np.shape(x), 1e-280)  # Exponential / LogNormal: just inside 0


def run_shard(shard):
    import equinox as eqx
    import jax
    import jax.numpy as jnp
    import jax.random as jr
    import flowjax.distributions as D
    from fjmon.bijcheck import Recorder
    from fjmon.common import chash, jsonable

    rec = Recorder(shard, "C05")
    DKW = math.sqrt(math.log(2 / 1e-9) / (2 * 20000))

    def bshapes(rng, shape, k):
        out = []
        for _ in range(k):
            sh = list(shape)
            for i in range(len(sh)):
                if rng.random() < 0.3:
                    sh[i] = 1
            cut = int(rng.integers(0, len(sh) + 1))
            sh = sh[cut:] if all(s == 1 for s in sh[:cut]) else sh
            out.append(tuple(sh))
        if np.broadcast_shapes(*out) != tuple(shape):
            out[0] = tuple(shape)
        return out

    def gen_params(fam, rng):
        r = int(rng.integers(0, 3))
        shape = tuple(int(v) for v in rng.permutation([2, 3, 5])[:r])
        mag = float(10.0 ** rng.uniform(-3, 3))
        locmag = float(rng.choice([0.0, 1.0, 100.0]))
        if fam == "StandardNormal":
            return shape, {"loc": np.zeros(shape), "scale": np.ones(shape)}
        if fam in ("Normal", "Gumbel", "Cauchy", "Laplace", "Logistic", "LogNormal"):
            sl, ss = bshapes(rng, shape, 2)
            loc = rng.normal(size=sl) * locmag
            scale = np.exp(rng.uniform(-1, 1, size=ss)) * (mag if fam != "LogNormal" else min(max(mag, 0.05), 3.0))
            if fam == "LogNormal":
                loc = rng.normal(size=sl) * min(locmag, 3.0)
            return shape, {"loc": loc, "scale": scale}
        if fam == "StudentT":
            sd, sl, ss = bshapes(rng, shape, 3)
            return shape, {"df": np.exp(rng.uniform(-1.5, 4, size=sd)), "loc": rng.normal(size=sl) * locmag,
                           "scale": np.exp(rng.uniform(-1, 1, size=ss)) * mag}
        if fam == "Uniform":
            sa, sb = bshapes(rng, shape, 2)
            lo = rng.normal(size=sa) * locmag
            width = np.exp(rng.uniform(-1, 1, size=sb)) * mag
            lo_b, w_b = np.broadcast_arrays(lo, width)
            return shape, {"minval": lo, "maxval_arg_shape": sb, "maxval": None, "width": width}
        if fam == "Exponential":
            return shape, {"rate": np.exp(rng.uniform(-1, 1, size=shape)) * mag}
        raise KeyError(fam)

    def build(fam, p):
        J = lambda a: jnp.asarray(a, dtype=jnp.float64)
        if fam == "StandardNormal":
            return D.StandardNormal(np.shape(p["loc"]))
        if fam == "StudentT":
            return D.StudentT(J(p["df"]), J(p["loc"]), J(p["scale"]))
        if fam == "Uniform":
            return D.Uniform(J(p["minval"]), J(p["maxval"]))
        if fam == "Exponential":
            return D.Exponential(J(p["rate"]))
        return getattr(D, fam)(J(p["loc"]), J(p["scale"]))

    def points(fam, p, shape, rng, n=48):
        sd = scipy_dist(fam, {k: (np.broadcast_to(v, shape) if isinstance(v, np.ndarray) else v) for k, v in p.items() if k in ("loc", "scale", "df", "rate", "minval", "maxval")})
        xs = [sd.rvs(size=(n // 2, *shape), random_state=np.random.RandomState(int(rng.integers(0, 2**31 - 1))))]
        loc = np.broadcast_to(p.get("loc", p.get("minval", 0.0)), shape) if fam not in ("Exponential", "LogNormal") else np.zeros(shape)
        scale = np.broadcast_to(p.get("scale", 1.0 if fam != "Exponential" else 1 / p.get("rate", 1.0)), shape) if fam != "Uniform" else np.broadcast_to(p["maxval"] - p["minval"], shape)
        far = []
        for m in (-800.0, 800.0, -30.0, 30.0, -3.0, 3.0, 0.0, 1e3, -1e3):
            far.append(loc + m * scale)
        far.append(np.full(shape, 800.0))
        far.append(np.full(shape, -800.0))
        far.append(np.zeros(shape))
        if fam == "Uniform":
            lo, hi = np.broadcast_to(p["minval"], shape), np.broadcast_to(p["maxval"], shape)
            # float neighbours of the ends (denormal neighbours of 0 are avoided: XLA CPU flushes denormals to zero)
            lo_out = np.where(lo == 0, -2.3e-308, np.nextafter(lo, -np.inf))
            hi_out = np.where(hi == 0, 2.3e-308, np.nextafter(hi, np.inf))
            lo_in = np.where(lo == 0, 2.3e-308, np.nextafter(lo, np.inf))
            far += [lo.copy(), hi.copy(), lo_out, hi_out, lo_in, (lo + hi) / 2]
        if fam in ("Exponential", "LogNormal"):
            far += [np.zeros(shape), np.full(shape, 2.3e-308), np.full(shape, -2.3e-308), np.full(shape, -1.0), np.full(shape, 1e-300)]
        xs.append(np.stack(far))
        mix = xs[0][: len(far)].copy()  # mix far coordinates into otherwise typical points
        F = np.stack(far)
        sel = rng.random(mix.shape) < 0.3
        mix = np.where(sel[: len(F)], F[: len(mix)], mix) if len(mix) == len(F) else mix
        xs.append(mix)
        return np.concatenate(xs).astype(np.float64)

    def check_density(fam, p, shape, d, rng, tag):
        xs = points(fam, p, shape, rng)
        N = len(xs)
        rec.evals += N
        lp = np.asarray(d.log_prob(jnp.asarray(xs)), dtype=np.float64)
        pb = {k: np.broadcast_to(v, shape) for k, v in p.items() if k in ("loc", "scale", "df", "rate", "minval", "maxval")}
        per = ref_logpdf(fam, pb, xs)
        with np.errstate(all="ignore"):
            per_sp = scipy_dist(fam, pb).logpdf(xs)
        axes = tuple(range(1, 1 + len(shape)))
        ref = per.sum(axis=axes) if axes else per
        ref_sp = per_sp.sum(axis=axes) if axes else per_sp
        edge = edge_mask(fam, pb, xs)
        edge_any = edge.any(axis=axes) if axes else edge
        if lp.shape != (N,):
            rec.violation("logprob.shape", f"{fam}{shape}: log_prob returned shape {lp.shape}, expected ({N},)", tag, ("init", 0.0), {})
            return
        if np.isnan(lp).any():
            i = int(np.where(np.isnan(lp))[0][0])
            rec.violation("logprob.nan", f"{fam} params={jsonable(p)}: log_prob is NaN at x={xs[i].tolist()}", tag, ("init", 0.0), {"x": xs[i]})
            return
        with np.errstate(all="ignore"):
            agree = (ref == ref_sp) | (np.abs(ref - ref_sp) <= 1e-9 * (1 + np.abs(ref)))
        rec.count("points_excluded_references_disagree", int((~agree & ~np.isnan(ref)).sum()))
        usable = ~np.isnan(ref)
        # the closed form is primary; scipy's underflow in far tails must not veto it
        with np.errstate(all="ignore"):
            err = np.where(ref == lp, 0.0, np.abs(lp - ref))
        tol = 1e-9 * (1 + np.abs(np.where(np.isfinite(ref), ref, 0.0))) * max(1, int(np.prod(shape, dtype=int)))
        bad = usable & ~(err <= tol)
        # edge points: -inf and the interior limit are both accepted
        if edge_any.any():
            interior = np.where(edge, ref_logpdf(fam, pb, np.where(edge, _interior_point(fam, pb, xs), xs)), per)
            ref_in = interior.sum(axis=axes) if axes else interior
            ok_edge = np.isneginf(lp) | (np.abs(lp - ref_in) <= tol * 10)
            # ... except on a *lower* edge hit exactly (x == minval, x == 0 for Exponential): the standardised coordinate is exactly
            # 0 there, no rounding is involved, and the reference convention (scipy: the closed lower end belongs to the support)
            # decides - minus infinity is a wrong value, not a convention
            if fam in ("Uniform", "Exponential"):
                lower_exact = (xs == pb["minval"]) if fam == "Uniform" else (xs == 0)
                strict_ev = (edge & ~lower_exact).any(axis=axes) if axes else (edge & ~lower_exact)
                strict_ev = edge_any & ~strict_ev  # every edge coordinate of the event sits exactly on the lower end
                rec.count("density_points_exactly_on_lower_edge", int(strict_ev.sum()))
                ok_edge = np.where(strict_ev, np.abs(lp - ref_in) <= tol * 10, ok_edge)
            bad &= ~(edge_any & ok_edge)
        # outside the support the reference is -inf: a finite value is a violation (covered by err=inf)
        closed_vs_scipy_only = bad & ~agree & (np.abs(lp - ref_sp) <= tol)
        rec.count("matches_scipy_but_not_closed_form", int(closed_vs_scipy_only.sum()))
        bad &= ~closed_vs_scipy_only  # both references are textbook-faithful there; count, do not alarm
        rec.count("density_points_compared", int(usable.sum()))
        rec.count("density_points_outside_support", int(np.isneginf(ref).sum()))
        rec.count("density_points_on_edge", int(edge_any.sum()))
        fin = usable & np.isfinite(ref)
        rec.maxi("density_err_over_tol", float(np.max(np.where(fin & ~bad, err / tol, 0))) if N else 0)
        if bad.any():
            i = int(np.where(bad)[0][0])
            rec.violation(f"density.{fam}", f"{fam} params={str(jsonable(p))[:300]}: log_prob({xs[i].tolist()}) = {lp[i]!r}, textbook {ref[i]!r} "
                                            f"(scipy {ref_sp[i]!r}); {int(bad.sum())} of {N} points", tag, ("init", 0.0),
                          {"x": xs[i], "log_prob": lp[i], "textbook": ref[i], "scipy": ref_sp[i], "params": p})
        nondefault = not all(np.all(v == (0 if k in ("loc",) else 1)) for k, v in p.items() if k in ("loc", "scale"))
        base = chash(fam, jsonable(p))
        nt = fin & nondefault
        rec.count("nontrivial_cases_total", int(nt.sum()))
        for i in np.where(nt)[0][:: max(1, int(nt.sum()) // 8)][:8]:
            rec.nontrivial.add(chash(base, int(i)))
        if len(rec.samples) < 3 and nt.any() and fam in ("StudentT", "Gumbel", "LogNormal"):
            i = int(np.where(nt)[0][0])
            rec.samples.append(jsonable({"family": fam, "params": p, "x": xs[i], "log_prob": lp[i], "textbook": ref[i], "scipy": ref_sp[i]}))

    def check_accessors(fam, p, shape, d, tag):
        acc = {"Normal": ["loc", "scale"], "Gumbel": ["loc", "scale"], "Cauchy": ["loc", "scale"], "Laplace": ["loc", "scale"],
               "Logistic": ["loc", "scale"], "StudentT": ["loc", "scale", "df"], "Uniform": ["minval", "maxval"],
               "Exponential": ["rate"]}.get(fam, [])
        for a in acc:
            got = np.asarray(getattr(d, a), dtype=np.float64)
            want = np.broadcast_to(p[a], shape)
            rec.count("accessor_checks")
            rec.evals += 1
            if got.shape != want.shape or not np.all(np.abs(got - want) <= 1e-9 * (np.abs(want) + (np.abs(p.get("minval", 0)).max() if a == "maxval" else 0))):
                rec.violation(f"accessor.{fam}.{a}", f"{fam}.{a} returns {got.tolist()} but was constructed with {want.tolist()}", tag, ("init", 0.0),
                              {"params": p})

    def ks_distance(samples, cdf):
        s = np.sort(samples)
        n = len(s)
        F = cdf(s)
        return max(np.max(np.arange(1, n + 1) / n - F), np.max(F - np.arange(0, n) / n))

    def check_sampler(fam, p, shape, d, rng, tag):
        n = 20000
        key = jr.PRNGKey(int(rng.integers(0, 2**31 - 1)))
        s = np.asarray(d.sample(key, (n,)), dtype=np.float64)
        rec.count("sampler_tests")
        rec.evals += 1
        if s.shape != (n, *shape):
            rec.violation("sample.shape", f"{fam}: sample shape {s.shape}", tag, ("init", 0.0), {})
            return
        pb = {k: np.broadcast_to(v, shape) for k, v in p.items() if k in ("loc", "scale", "df", "rate", "minval", "maxval")}
        flat = s.reshape(n, -1)
        worst = 0.0
        for j in range(flat.shape[1]):
            pj = {k: v.reshape(-1)[j] for k, v in pb.items()}
            dist = scipy_dist(fam, pj)
            ks = ks_distance(flat[:, j], dist.cdf)
            worst = max(worst, ks)
            rec.count("sampler_coordinates_tested")
            if ks > DKW:
                rec.violation(f"sampler.{fam}", f"{fam} params={pj}: KS distance {ks:.4f} > {DKW:.4f} (n={n}) against the textbook CDF",
                              tag, ("init", 0.0), {"params": p, "coordinate": j, "ks": ks})
                break
        rec.maxi("sampler_ks_over_bound", worst / DKW)
        # same key, same result; different elements distinct
        s2 = np.asarray(d.sample(key, (n,)), dtype=np.float64)
        if not np.array_equal(s, s2):
            rec.violation("sampler.nondeterministic", f"{fam}: the same key gave different samples", tag, ("init", 0.0), {})

    def check_mvn(rng, tag, do_sample):
        from scipy import stats

        dim = int(rng.integers(1, 6))
        A = rng.normal(size=(dim, dim))
        cov = A @ A.T + np.eye(dim) * float(rng.choice([1e-3, 0.1, 1.0]))
        cov *= float(10.0 ** rng.uniform(-2, 2))
        loc = rng.normal(size=dim) * 3 if rng.random() < 0.7 else np.asarray(rng.normal())
        d = D.MultivariateNormal(jnp.asarray(loc), jnp.asarray(cov))
        locb = np.broadcast_to(loc, (dim,))
        sp = stats.multivariate_normal(locb, cov)
        xs = np.concatenate([sp.rvs(size=24, random_state=np.random.RandomState(1)).reshape(24, dim), locb + rng.normal(size=(8, dim)) * 100 * np.sqrt(np.diag(cov))])
        lp = np.asarray(d.log_prob(jnp.asarray(xs)), dtype=np.float64)
        L = np.linalg.cholesky(cov)
        z = np.linalg.solve(L, (xs - locb).T).T
        ref = -0.5 * (z * z).sum(1) - np.log(np.diag(L)).sum() - 0.5 * dim * LOG2PI
        rec.evals += len(xs)
        rec.count("density_points_compared", len(xs))
        tol = 1e-8 * (1 + np.abs(ref)) * np.linalg.cond(cov) ** 0.5
        bad = ~(np.abs(lp - ref) <= tol)
        if bad.any():
            i = int(np.where(bad)[0][0])
            rec.violation("density.MultivariateNormal", f"MVN dim={dim}: log_prob {lp[i]!r} vs textbook {ref[i]!r} (scipy {sp.logpdf(xs[i])!r})", tag, ("init", 0.0),
                          {"loc": loc, "cov": cov, "x": xs[i]})
        for i in range(0, len(xs), 4):
            rec.nontrivial.add(chash("mvn", cov.tobytes().hex()[:32], i))
        rec.count("accessor_checks", 2)
        gc, gl = np.asarray(d.covariance), np.asarray(d.loc)
        if not np.allclose(gc, cov, rtol=1e-8, atol=1e-12 * np.abs(cov).max()) or not np.allclose(gl, locb, rtol=1e-12, atol=0):
            rec.violation("accessor.MultivariateNormal", f"MVN accessors differ from the constructor arguments (max cov diff {np.abs(gc - cov).max():.3g})", tag, ("init", 0.0), {})
        if do_sample:
            n = 20000
            s = np.asarray(d.sample(jr.PRNGKey(int(rng.integers(0, 2**31 - 1))), (n,)), dtype=np.float64)
            w = np.linalg.solve(L, (s - locb).T).T
            rec.count("sampler_tests")
            cols = [w[:, j] for j in range(dim)] + [w.sum(1) / math.sqrt(dim)]
            for j, col in enumerate(cols):
                ks = ks_distance(col, stats.norm.cdf)
                rec.count("sampler_coordinates_tested")
                rec.maxi("sampler_ks_over_bound", ks / DKW)
                if ks > DKW:
                    rec.violation("sampler.MultivariateNormal", f"MVN dim={dim}: whitened coordinate {j} KS {ks:.4f} > {DKW:.4f}", tag, ("init", 0.0), {})
                    break

    def check_mixture(rng, tag, do_sample):
        from scipy.special import logsumexp

        fam = str(rng.choice(["Normal", "Gumbel", "Cauchy", "Laplace", "Logistic", "StudentT", "Uniform", "Exponential", "LogNormal"]))
        k = int(rng.integers(2, 6))
        shape = () if rng.random() < 0.6 else (int(rng.choice([2, 3])),)
        ps = []
        for _ in range(k):
            sh, p = gen_params(fam, rng)
            ps.append(p)
        # component parameters of a common full shape
        def full(p):
            q = {}
            for kk, v in p.items():
                if kk in ("loc", "scale", "df", "rate", "minval", "width"):
                    q[kk] = np.resize(np.asarray(v, dtype=np.float64).ravel(), int(np.prod(shape, dtype=int)) or 1).reshape(shape)
            if fam == "Uniform":
                q["maxval"] = q["minval"] + q.pop("width")
            if fam in ("Normal", "Gumbel", "Cauchy", "Laplace", "Logistic", "StudentT", "LogNormal"):
                q["scale"] = np.clip(q["scale"], 0.05, 50.0)
            return q
        ps = [full(p) for p in ps]
        w = np.exp(rng.uniform(-2, 2, size=k))
        stack = {kk: jnp.asarray(np.stack([p[kk] for p in ps])) for kk in ps[0]}
        if fam == "StudentT":
            comp = eqx.filter_vmap(D.StudentT)(stack["df"], stack["loc"], stack["scale"])
        elif fam == "Uniform":
            comp = eqx.filter_vmap(D.Uniform)(stack["minval"], stack["maxval"])
        elif fam == "Exponential":
            comp = eqx.filter_vmap(D.Exponential)(stack["rate"])
        else:
            comp = eqx.filter_vmap(getattr(D, fam))(stack["loc"], stack["scale"])
        xs = np.concatenate([points(fam, ps[i], shape, rng, n=12) for i in range(min(k, 3))])
        axes = tuple(range(1, 1 + len(shape)))
        comps = np.stack([(ref_logpdf(fam, ps[i], xs).sum(axis=axes) if axes else ref_logpdf(fam, ps[i], xs)) for i in range(k)], 1)
        with np.errstate(all="ignore"):
            ref = logsumexp(comps + np.log(w / w.sum()), axis=1)
        lps = []
        for scale_w in (1.0, 1e-3, 1e3):
            d = D.VmapMixture(comp, jnp.asarray(w * scale_w))
            lp = np.asarray(d.log_prob(jnp.asarray(xs)), dtype=np.float64)
            lps.append(lp)
            rec.evals += len(xs)
            rec.count("mixture_points_compared", len(xs))
            if np.isnan(lp).any():
                rec.violation("mixture.nan", f"mixture of {k} {fam}: NaN log_prob", tag, ("init", 0.0), {})
                return
            with np.errstate(all="ignore"):
                err = np.where(lp == ref, 0.0, np.abs(lp - ref))
            tol = 1e-9 * (1 + np.abs(np.where(np.isfinite(ref), ref, 0))) * max(1, int(np.prod(shape, dtype=int)))
            edge = np.zeros(len(xs), bool)
            for i in range(k):
                e = edge_mask(fam, ps[i], xs)
                edge |= e.any(axis=axes) if axes else e
            bad = ~(err <= tol) & ~edge & ~np.isnan(ref)
            if bad.any():
                i = int(np.where(bad)[0][0])
                rec.violation("mixture.density", f"mixture of {k} {fam} weights x{scale_w}: log_prob({xs[i].tolist()}) = {lp[i]!r}, weighted logsumexp of textbook "
                                                 f"components {ref[i]!r}", tag, ("init", 0.0), {"weights": w * scale_w, "params": ps, "x": xs[i]})
                return
        edge_free = ~edge
        if not (np.allclose(lps[0][edge_free], lps[1][edge_free], rtol=1e-9, atol=1e-9, equal_nan=True) and np.allclose(lps[0][edge_free], lps[2][edge_free], rtol=1e-9, atol=1e-9, equal_nan=True)):
            rec.violation("mixture.weight_rescaling", f"mixture of {k} {fam}: log_prob changes when the weights are rescaled", tag, ("init", 0.0), {})
        for i in range(0, len(xs), 4):
            if np.isfinite(ref[i]):
                rec.nontrivial.add(chash("mix", fam, w.tobytes().hex()[:24], i))
        if do_sample and shape == ():
            n = 20000
            d = D.VmapMixture(comp, jnp.asarray(w))
            s = np.asarray(d.sample(jr.PRNGKey(int(rng.integers(0, 2**31 - 1))), (n,)), dtype=np.float64)
            dists = [scipy_dist(fam, ps[i]) for i in range(k)]
            cdf = lambda v: sum((w[i] / w.sum()) * dists[i].cdf(v) for i in range(k))
            ks = ks_distance(s, cdf)
            rec.count("sampler_tests")
            rec.count("sampler_coordinates_tested")
            rec.maxi("sampler_ks_over_bound", ks / DKW)
            if ks > DKW:
                rec.violation("sampler.Mixture", f"mixture of {k} {fam} weights {w.tolist()}: KS {ks:.4f} > {DKW:.4f} against sum w_i F_i", tag, ("init", 0.0),
                              {"weights": w, "params": ps})

    def check_high_dim(rng, tag):
        """Dimension threshold: hundreds of independent coordinates with small / large scales (sum of log-scales ~ +-900)."""
        for fam in ("Normal", "Laplace", "Gumbel"):
            for sc in (0.05, 20.0):
                n = 400
                p = {"loc": rng.normal(size=n), "scale": np.full(n, sc) * np.exp(rng.uniform(-0.2, 0.2, n))}
                d = build(fam, p)
                x = p["loc"] + p["scale"] * rng.normal(size=(6, n))
                lp = np.asarray(d.log_prob(jnp.asarray(x)), dtype=np.float64)
                ref = ref_logpdf(fam, p, x).sum(1)
                rec.evals += len(x)
                rec.count("high_dimensional_density_points", len(x))
                rec.nontrivial.add(chash("hd", fam, sc))
                if not np.all(np.abs(lp - ref) <= 1e-9 * (1 + np.abs(ref)) * n):
                    rec.violation(f"density.{fam}.high_dim", f"{fam} with {n} coordinates and scales ~{sc}: log_prob {lp[0]!r} vs textbook {ref[0]!r}", tag, ("init", 0.0), {})
                s_, lps = d.sample_and_log_prob(jr.PRNGKey(1), (3,))
                ref2 = ref_logpdf(fam, p, np.asarray(s_, dtype=np.float64)).sum(1)
                if not np.all(np.abs(np.asarray(lps, dtype=np.float64) - ref2) <= 1e-9 * (1 + np.abs(ref2)) * n):
                    rec.violation(f"density.{fam}.high_dim", f"{fam} with {n} coordinates: sample_and_log_prob log-prob {np.asarray(lps)[0]!r} vs textbook at the sample {ref2[0]!r}",
                                  tag, ("init", 0.0), {})

    def check_mixture_after_update(rng, tag):
        """Mixture weights after the raw weight leaf has moved (as in any training run): still the weight-normalised sum."""
        from scipy.special import logsumexp
        from fjmon.common import perturb
        from flowjax.wrappers import unwrap

        k = int(rng.integers(2, 6))
        locs, scales = rng.normal(size=k) * 3, np.exp(rng.uniform(-1, 1, k))
        d0 = D.VmapMixture(eqx.filter_vmap(D.Normal)(jnp.asarray(locs), jnp.asarray(scales)), jnp.asarray(np.exp(rng.uniform(-2, 2, k))))
        d = perturb(d0, 1.0, int(rng.integers(0, 10**6)))
        u = unwrap(d)
        lw = np.asarray(u.log_normalized_weights, dtype=np.float64)
        cl, cs = np.asarray(u.dist.bijection.loc, dtype=np.float64), np.asarray(u.dist.bijection.scale, dtype=np.float64)
        xs = rng.normal(size=40) * 6
        comps = np.stack([ref_logpdf("Normal", {"loc": cl[i], "scale": cs[i]}, xs) for i in range(k)], 1)
        ref = logsumexp(comps + lw - logsumexp(lw), axis=1)
        lp = np.asarray(d.log_prob(jnp.asarray(xs)), dtype=np.float64)
        rec.evals += len(xs)
        rec.count("mixture_points_after_weight_update", len(xs))
        rec.nontrivial.add(chash("mixupd", lw.tobytes().hex()[:16]))
        if not np.all(np.abs(lp - ref) <= 1e-9 * (1 + np.abs(ref))):
            i = int(np.argmax(np.abs(lp - ref)))
            rec.violation("mixture.after_update", f"mixture of {k} Normal after its weight leaf moved: log_prob({xs[i]}) = {lp[i]!r}, weight-normalised sum of the component "
                                                  f"densities {ref[i]!r} (weights sum to exp({float(logsumexp(lw))!r}))", tag, ("init", 0.0), {})

    if shard.get("f32"):
        return _run_f32(shard, rec, D, jnp, jsonable, chash)
    only = shard.get("items")
    if not only:
        r0 = np.random.default_rng([shard["seed"], 5, shard["shard"], 999])
        if shard["shard"] % 4 == 0:
            check_high_dim(r0, {"family": "high_dim", "index": -1, "origin": "generated"})
        for _ in range(2):
            check_mixture_after_update(r0, {"family": "mixture_update", "index": -2, "origin": "generated"})
    idx = 0
    for fam in FAMILIES:
        for j in range(shard["per_family"]):
            do_sample = j < shard["samplers_per_family"]
            tag = {"family": fam, "index": idx, "origin": "generated"}
            if only and not (only[0]["family"] == fam and only[0]["index"] == idx):
                idx += 1
                continue
            rng = np.random.default_rng([shard["seed"], 5, shard["shard"], idx])
            idx += 1
            rec.count("family_" + fam)
            if fam == "MultivariateNormal":
                check_mvn(rng, tag, do_sample or bool(only))
                continue
            if fam == "Mixture":
                check_mixture(rng, tag, do_sample or bool(only))
                continue
            shape, p = gen_params(fam, rng)
            if fam == "Uniform":
                p["maxval"] = np.broadcast_to(p["minval"], np.broadcast_shapes(np.shape(p["minval"]), np.shape(p["width"]))) + p["width"]
                p.pop("width"); p.pop("maxval_arg_shape")
                shape = np.broadcast_shapes(np.shape(p["minval"]), np.shape(p["maxval"]))
            try:
                d = build(fam, p)
            except Exception as e:  # noqa: BLE001
                rec.violation(f"build.{type(e).__name__}", f"{fam} params={jsonable(p)}: constructor raised {type(e).__name__}: {str(e)[:200]}", tag, ("init", 0.0), {})
                continue
            if tuple(d.shape) != tuple(shape):
                rec.violation("shape", f"{fam}: shape {d.shape}, parameters broadcast to {shape}", tag, ("init", 0.0), {})
                continue
            check_density(fam, p, shape, d, rng, tag)
            check_accessors(fam, p, shape, d, tag)
            if do_sample or only:
                check_sampler(fam, p, shape, d, rng, tag)
    out = rec.result()
    if not shard.get("replay"):
        out["required"] = {k: rec.counters.get(k, 0) for k in ("density_points_compared", "accessor_checks", "mixture_points_compared",
                                                               "density_points_outside_support", "density_points_on_edge")}
    return out


def _run_f32(shard, rec, D, jnp, jsonable, chash):
    """float32 pass: scalar families with small / large parameter magnitudes; reference = the textbook density in float64 of the
    float32-rounded parameters at float32 points."""
    f32 = np.float32
    fams = ["Normal", "Gumbel", "Cauchy", "Laplace", "Logistic", "StudentT", "Exponential", "Uniform", "LogNormal"]
    only = shard.get("items")
    idx = 0
    for rep in range(shard["reps"]):
        for fam in fams:
            for mag in (1e-6, 1e-5, 1e-4, 1e-2, 1.0, 1e3):
                tag = {"family": fam, "index": idx, "origin": "generated", "dtype": "float32"}
                idx += 1
                if only and only[0]["index"] != tag["index"]:
                    continue
                rng = np.random.default_rng([shard["seed"], 55, shard["shard"], tag["index"]])
                n = int(rng.integers(1, 4))
                scale = (np.exp(rng.uniform(-0.5, 0.5, size=n)) * mag).astype(f32)
                loc = (scale * rng.choice([0.0, 3.0]) * rng.normal(size=n)).astype(f32)
                z = rng.normal(size=(8, n))
                try:
                    if fam == "Exponential":
                        p = {"rate": (1 / scale).astype(f32)}
                        d = D.Exponential(jnp.asarray(p["rate"]))
                        x = (np.abs(z) / p["rate"].astype(np.float64)).astype(f32)
                    elif fam == "Uniform":
                        p = {"minval": loc, "maxval": (loc.astype(np.float64) + scale).astype(f32)}
                        if not np.all(p["maxval"] > p["minval"]):
                            continue
                        d = D.Uniform(jnp.asarray(p["minval"]), jnp.asarray(p["maxval"]))
                        x = (loc + (p["maxval"].astype(np.float64) - loc) * rng.uniform(0.05, 0.95, size=(8, n))).astype(f32)
                    elif fam == "StudentT":
                        # (moderate degrees of freedom: lgamma((nu+1)/2) - lgamma(nu/2) cancels in single precision for nu >> 100)
                        p = {"df": np.exp(rng.uniform(-1, 3, size=n)).astype(f32), "loc": loc, "scale": scale}
                        d = D.StudentT(jnp.asarray(p["df"]), jnp.asarray(loc), jnp.asarray(scale))
                        x = (loc + scale.astype(np.float64) * z).astype(f32)
                    elif fam == "LogNormal":
                        sc = np.clip(scale, 1e-3, 3.0).astype(f32)
                        p = {"loc": np.clip(loc, -3, 3).astype(f32), "scale": sc}
                        d = D.LogNormal(jnp.asarray(p["loc"]), jnp.asarray(sc))
                        x = np.exp(p["loc"] + sc.astype(np.float64) * z).astype(f32)
                    else:
                        p = {"loc": loc, "scale": scale}
                        d = getattr(D, fam)(jnp.asarray(loc), jnp.asarray(scale))
                        x = (loc + scale.astype(np.float64) * z).astype(f32)
                except Exception as e:  # noqa: BLE001
                    rec.violation(f"build.{type(e).__name__}", f"{fam} (float32) params={jsonable(p)}: constructor raised {type(e).__name__}: {str(e)[:200]}", tag, ("init", 0.0), {})
                    continue
                p64 = {k: np.asarray(v, dtype=np.float64) for k, v in p.items()}
                # accessors reproduce the constructor arguments to float32 rounding
                for a in [k for k in ("scale", "rate", "df", "minval", "maxval", "loc") if k in p and fam != "LogNormal"]:
                    got = np.asarray(getattr(d, a), dtype=np.float64)
                    rec.count("f32_accessor_checks")
                    rec.evals += 1
                    slack = np.abs(p64.get("minval", 0.0)) if a == "maxval" else 0.0
                    if not np.all(np.abs(got - p64[a]) <= 4e-6 * (np.abs(p64[a]) + slack)):
                        rec.violation(f"accessor.{fam}.{a}", f"{fam}.{a} (float32) returns {got.tolist()} but was constructed with {p64[a].tolist()}", tag, ("init", 0.0), {"params": p})
                lp = np.asarray(d.log_prob(jnp.asarray(x)), dtype=np.float64)
                x64_ = x.astype(np.float64)
                ref = ref_logpdf(fam, p64, x64_).sum(-1)
                # rounding of the standardisation (x - loc) / scale in float32, amplified by the density's slope in z
                zz = np.abs((x64_ - p64.get("loc", p64.get("minval", 0.0))) / (p64["scale"] if "scale" in p64 else (1 / p64["rate"] if "rate" in p64 else p64["maxval"] - p64["minval"])))
                cancel = (np.abs(x64_) + np.abs(p64.get("loc", 0.0))) / np.maximum(np.abs(x64_ - p64.get("loc", 0.0)), 1e-300) if "loc" in p64 else 1.0
                tol = 5e-5 * (1 + np.abs(ref)) * n + (1e-6 * (1 + zz) * (1 + zz) * np.minimum(cancel, 1e6)).sum(-1)
                fin = np.isfinite(ref) & (tol < 1e-2 * (1 + np.abs(ref)))
                rec.evals += int(fin.size)
                rec.count("f32_density_points_compared", int(fin.sum()))
                err = np.abs(lp - ref)
                rec.maxi("f32_density_err_over_tol", float(np.max(np.where(fin & (err <= tol), err / tol, 0))) if fin.any() else 0.0)
                bad = fin & ~(err <= tol)
                if bad.any():
                    i = int(np.where(bad)[0][0])
                    rec.violation(f"density.{fam}", f"{fam} (float32) params={jsonable(p)}: log_prob({x[i].tolist()}) = {lp[i]!r} but the textbook density gives {ref[i]!r} "
                                                    f"(tol {tol[i]:.3g}; {int(bad.sum())} of {bad.size} points)", tag, ("init", 0.0), {"params": p, "x": x[i]})
                if mag != 1.0:
                    rec.nontrivial.add(chash("f32", fam, mag, rep, shard["shard"]))
    out = rec.result()
    if not shard.get("replay"):
        out["required"] = {k: rec.counters.get(k, 0) for k in ("f32_density_points_compared", "f32_accessor_checks")}
    return out
