"""C06 - batched calls equal elementwise unbatched calls with NumPy broadcasting; independent keys.

Observation through the documented extension point: *tag distributions* (harness subclasses of
AbstractDistribution) whose `_sample` returns an injective encoding of (key words, condition slice id) and whose
`_log_prob` returns an injective encoding of (x slice id, condition slice id).  Reading the outputs back tells
exactly which key and which slices every output element was computed from, so shape, NumPy-broadcast pairing, key
distinctness and determinism are decided exactly.  Real conditional distributions (flows) are then compared with a
Python loop of unbatched public calls."""
from __future__ import annotations

import itertools

import numpy as np

PROPERTY = "C06"
LEVEL = "exploration"
NEEDS_SHIM = False
RULE = ("event shapes {(),(2,),(2,3)} x condition shapes {None,(),(3,),(2,2)} x leading batch shapes on x and on the condition from "
        "{(),(1,),(4,),(5,1),(1,4),(5,4),(4,4),(2,5,4)} (all pairs, broadcastable and not) x sample_shapes {(),(1,),(3,),(2,3)}, enumerated "
        "exhaustively for tag distributions; real conditional flows / Transformed on a sampled subset (thorough: all). A case = one "
        "batched public call; non-trivial = the output has >= 2 elements (so pairing/keys can be wrong); distinct = distinct "
        "(distribution kind, event, cond, batch shapes, method) tuples")
ASSUMPTIONS = [
    "tag encodings are exact in float64: 21 bits of each key word and a 10-bit slice id per element",
    "real-distribution comparison tolerance 1e-12 relative (same code, batched vs looped); numerically inverted paths are not used here",
    "a different key giving a different result is recorded, not required",
]
ANCHOR_FILES = ["distributions.py", "utils.py"]
REQUIRED_FUNCS = ["distributions.py:AbstractDistribution.log_prob", "distributions.py:AbstractDistribution.sample",
                  "distributions.py:AbstractDistribution.sample_and_log_prob", "distributions.py:AbstractDistribution._vectorize",
                  "distributions.py:AbstractDistribution._get_sample_keys", "distributions.py:AbstractDistribution._vectorize._check_shapes._wrapper",
                  "utils.py:_get_ufunc_signature"]

EVENTS = [(), (2,), (2, 3)]
CONDS = [None, (), (3,), (2, 2)]
BATCHES = [(), (1,), (4,), (5, 1), (1, 4), (5, 4), (4, 4), (2, 5, 4)]
SAMPLE_SHAPES = [(), (1,), (3,), (2, 3)]
# zero-length batch axes are batch dimensions like any other ("arbitrary leading batch dimensions", NumPy semantics: the result is empty)
EMPTY_X = [(0,), (0, 1), (2, 0), (0, 4)]
EMPTY_C = [(), (1,), (4,), (5, 1), (0,), (3, 1, 1)]
EMPTY_SAMPLING = [((0,), ()), ((2, 0), ()), ((0,), (4,)), ((3,), (0,)), ((3,), (2, 0)), ((0,), (0,))]


def plan(tier, seed):
    combos = list(itertools.product(range(len(EVENTS)), range(len(CONDS))))
    shards = []
    for i, (e, c) in enumerate(combos):
        shards.append({"name": f"C06-tag-{i}", "shard": i, "kind": "tag", "event": e, "cond": c, "x64": True, "timeout": 3000})
    nreal = 8  # 4-7: distributions with a restricted support (batches mix points inside and outside it)
    for i in range(nreal):
        shards.append({"name": f"C06-real-{i}", "shard": 100 + i, "kind": "real", "which": i, "full": tier == "thorough", "x64": True,
                       "timeout": 3000})
    return shards


def run_shard(shard):
    import equinox as eqx
    import jax
    import jax.numpy as jnp
    import jax.random as jr
    from flowjax.distributions import AbstractDistribution
    from fjmon.bijcheck import Recorder
    from fjmon.common import jsonable

    rec = Recorder(shard, "C06")
    rng = np.random.default_rng([shard["seed"], 6, shard["shard"]])
    M21 = float(2**21)

    class Tag(AbstractDistribution):
        shape: tuple
        cond_shape: tuple | None

        def _enc_cond(self, condition):
            if self.cond_shape is None or condition is None:
                return jnp.asarray(0.0)
            c = jnp.ravel(condition)
            same = jnp.all(c == c[0])
            return jnp.where(same, c[0], 1023.0)  # 1023 = "slice was torn"

        def _sample(self, key, condition=None):
            kd = jr.key_data(key) if jnp.issubdtype(key.dtype, jax.dtypes.prng_key) else key
            k0 = (kd[0] % (2**21)).astype(jnp.float64)
            k1 = (kd[1] % (2**21)).astype(jnp.float64)
            val = (k0 * M21 + k1) * 1024.0 + self._enc_cond(condition)
            return jnp.full(self.shape, val)

        def _log_prob(self, x, condition=None):
            xr = jnp.ravel(x)
            same = jnp.all(xr == xr[0])
            xid = jnp.where(same, xr[0], -7.0)
            return xid * 1024.0 + self._enc_cond(condition)

    def v(mech, msg, case):
        rec.violation(mech, msg, {"case": case, "origin": "lattice"}, ("init", 0.0), case)

    def run_tag(event, cshape):
        d = Tag(event, cshape)
        kind = f"Tag(event={event},cond={cshape})"
        cbatches = BATCHES if cshape is not None else [()]
        # ------------------------------------------------------------ log_prob ------------
        empties = list(itertools.product(EMPTY_X, EMPTY_C if cshape is not None else [()]))
        for xb, cb in list(itertools.product(BATCHES, cbatches)) + empties:
            case = {"dist": kind, "method": "log_prob", "x_batch": xb, "cond_batch": cb}
            nx = int(np.prod(xb, dtype=int))
            xid = (1 + np.arange(nx, dtype=float)).reshape(xb)
            x = np.broadcast_to(xid.reshape(xb + (1,) * len(event)), xb + event).copy()
            c, cid = None, None
            if cshape is not None:
                ncb = int(np.prod(cb, dtype=int))
                cid = (100 + np.arange(ncb, dtype=float)).reshape(cb)
                c = np.broadcast_to(cid.reshape(cb + (1,) * len(cshape)), cb + cshape).copy()
            try:
                bshape = np.broadcast_shapes(xb, cb)
            except ValueError:
                bshape = None
            rec.evals += 1
            rec.hashes.add(("lp", event, cshape, xb, cb))
            try:
                lp = np.asarray(d.log_prob(jnp.asarray(x), None if c is None else jnp.asarray(c)), dtype=np.float64)
            except Exception as e:  # noqa: BLE001
                if bshape is not None:
                    v("logprob.unexpected_raise", f"{kind}.log_prob raised {type(e).__name__} for broadcastable batch shapes x{xb} cond{cb}", case)
                else:
                    rec.count("non_broadcastable_rejected")
                continue
            if bshape is None:
                v("logprob.no_raise", f"{kind}.log_prob returned shape {lp.shape} for non-broadcastable batch shapes x{xb} cond{cb}", case)
                continue
            rec.count("batched_logprob_calls")
            if 0 in xb or 0 in cb:
                rec.count("empty_batch_logprob_calls")
            if lp.shape != bshape:
                v("logprob.shape", f"{kind}.log_prob shape {lp.shape}, NumPy broadcasting gives {bshape} (x{xb} cond{cb})", case)
                continue
            exp = np.broadcast_to(xid, bshape) * 1024.0 + (np.broadcast_to(cid, bshape) if cid is not None else 0.0)
            rec.count("logprob_elements_decoded", lp.size)
            if not np.array_equal(lp, exp):
                i = tuple(int(t) for t in np.argwhere(lp != exp)[0])
                v("logprob.pairing", f"{kind}.log_prob element {i} was computed from x slice {lp[i] // 1024} / condition slice {lp[i] % 1024}, "
                                     f"NumPy broadcasting pairs x slice {exp[i] // 1024} with condition slice {exp[i] % 1024} (x{xb} cond{cb})", case)
            if lp.size >= 2:
                rec.nontrivial.add(("lp", event, cshape, xb, cb))
        # ------------------------------------------------------------ sampling ------------
        for ss, cb in list(itertools.product(SAMPLE_SHAPES, cbatches)) + [(a, b_) for a, b_ in EMPTY_SAMPLING if cshape is not None or b_ == ()]:
            for method in ("sample", "sample_and_log_prob"):
                case = {"dist": kind, "method": method, "sample_shape": ss, "cond_batch": cb}
                c, cid = None, None
                if cshape is not None:
                    ncb = int(np.prod(cb, dtype=int))
                    cid = (100 + np.arange(ncb, dtype=float)).reshape(cb)
                    c = np.broadcast_to(cid.reshape(cb + (1,) * len(cshape)), cb + cshape).copy()
                key = jr.PRNGKey(int(rng.integers(0, 2**31 - 1)))
                rec.evals += 1
                rec.hashes.add((method, event, cshape, ss, cb))
                try:
                    out = getattr(d, method)(key, ss, None if c is None else jnp.asarray(c))
                    out2 = getattr(d, method)(key, ss, None if c is None else jnp.asarray(c))
                except Exception as e:  # noqa: BLE001
                    v("sample.raise.empty_batch" if (0 in ss or 0 in cb) else "sample.raise",
                      f"{kind}.{method} raised {type(e).__name__}: {str(e)[:150]} (sample_shape {ss} cond{cb})", case)
                    continue
                s = np.asarray(out[0] if method == "sample_and_log_prob" else out, dtype=np.float64)
                s2 = np.asarray(out2[0] if method == "sample_and_log_prob" else out2, dtype=np.float64)
                rec.count("batched_sample_calls")
                exp_shape = ss + (cb if cshape is not None else ()) + event
                if s.shape != exp_shape:
                    v("sample.shape", f"{kind}.{method} shape {s.shape}, documented sample_shape + condition batch + event = {exp_shape}", case)
                    continue
                if not np.array_equal(s, s2):
                    v("sample.nondeterministic", f"{kind}.{method}: the same key gave different results", case)
                if s.size == 0:  # empty batch: only the shapes can be judged
                    rec.count("empty_batch_sample_calls")
                    if method == "sample_and_log_prob" and np.asarray(out[1]).shape != ss + (cb if cshape is not None else ()):
                        v("sample_and_log_prob.shape", f"{kind}: log-prob shape {np.asarray(out[1]).shape}, expected {ss + cb}", case)
                    rec.nontrivial.add((method, event, cshape, ss, cb))
                    continue
                bs = ss + (cb if cshape is not None else ())
                flat = s.reshape(bs + (-1,)) if event else s.reshape(bs + (1,))
                if not np.all(flat == flat[..., :1]):
                    v("sample.event", f"{kind}.{method}: event entries of one sample differ (mixed keys inside an event)", case)
                val = flat[..., 0]
                keytag, condtag = val // 1024, val % 1024
                rec.count("sample_elements_decoded", val.size)
                if len(np.unique(keytag)) != keytag.size:
                    v("sample.key_reuse", f"{kind}.{method}: {keytag.size - len(np.unique(keytag))} of {keytag.size} elements of one batched sample "
                                          f"were drawn with a key used by another element (sample_shape {ss} cond{cb})", case)
                if cid is not None:
                    expc = np.broadcast_to(cid, bs)
                    if not np.array_equal(condtag, expc):
                        i = tuple(int(t) for t in np.argwhere(condtag != expc)[0])
                        v("sample.condition_slice", f"{kind}.{method}: element {i} was generated with condition slice {condtag[i]}, expected {expc[i]} "
                                                    f"(sample_shape {ss} cond{cb})", case)
                if method == "sample_and_log_prob":
                    lp = np.asarray(out[1], dtype=np.float64)
                    if lp.shape != bs:
                        v("sample_and_log_prob.shape", f"{kind}: log-prob shape {lp.shape}, expected {bs}", case)
                    else:
                        # _log_prob(sample element, its condition slice) under the tag encoding
                        expl = val * 1024.0 + (np.broadcast_to(cid, bs) if cid is not None else 0.0)
                        if not np.array_equal(lp, expl):
                            v("sample_and_log_prob.pairing", f"{kind}: returned log-prob is not log_prob of the returned sample with its own condition slice", case)
                if val.size >= 2:
                    rec.nontrivial.add((method, event, cshape, ss, cb))
                # a different key: recorded only
                key_b = jr.PRNGKey(int(rng.integers(0, 2**31 - 1)))
                ob = getattr(d, method)(key_b, ss, None if c is None else jnp.asarray(c))
                sb = np.asarray(ob[0] if method == "sample_and_log_prob" else ob)
                rec.count("different_key_changes_result", int(not np.array_equal(sb, s)))
        if len(rec.samples) < 2:
            rec.samples.append(jsonable({"dist": kind, "example": "log_prob element = 1024 * x_slice_id + condition_slice_id; sample element = "
                                                                   "(key tag) * 1024 + condition_slice_id"}))

    def run_real(which, full):
        from flowjax.bijections import Affine, AdditiveCondition, Chain
        from flowjax.distributions import Normal, StandardNormal, Transformed
        from flowjax.flows import coupling_flow, masked_autoregressive_flow
        from fjmon.common import perturb

        key = jr.PRNGKey(11 + which)
        if which == 0:
            d = perturb(coupling_flow(key, base_dist=StandardNormal((3,)), cond_dim=2, flow_layers=2, nn_width=6), 0.4, 3)
            kind = "coupling_flow(cond_dim=2)"
        elif which == 1:
            d = perturb(masked_autoregressive_flow(key, base_dist=Normal(jnp.zeros(2), jnp.ones(2) * 2), cond_dim=3, flow_layers=2, nn_width=6, invert=False), 0.4, 4)
            kind = "masked_autoregressive_flow(cond_dim=3, invert=False)"
        elif which == 2:
            class Lin(eqx.Module):
                W: jax.Array
                def __call__(self, c):
                    return (self.W @ jnp.ravel(c)).reshape((2, 3))
            d = Transformed(Normal(jnp.zeros((2, 3)), jnp.linspace(0.5, 2, 6).reshape(2, 3)),
                            Chain([Affine(jnp.ones((2, 3)), jnp.full((2, 3), 1.7)), AdditiveCondition(Lin(jr.normal(key, (6, 4))), (2, 3), (2, 2))]))
            kind = "Transformed(Normal(2,3), Chain[Affine, AdditiveCondition cond (2,2)])"
        elif which == 3:
            class LinS(eqx.Module):
                w: jax.Array
                def __call__(self, c):
                    return self.w * c
            d = Transformed(Normal(0.3, 1.3), AdditiveCondition(LinS(jnp.asarray(0.7)), (), ()))
            kind = "Transformed(Normal(), AdditiveCondition scalar cond) [scalar event, scalar condition]"
        elif which == 4:
            from flowjax.distributions import LogNormal
            d = LogNormal(0.2, 0.8)
            kind = "LogNormal() [support (0, inf): about half of each batch lies outside]"
        elif which == 5:
            from flowjax.distributions import Exponential
            d = Exponential(jnp.asarray([0.5, 2.0, 1.0]))
            kind = "Exponential(rate (3,)) [support [0, inf)^3]"
        elif which == 6:
            from flowjax.distributions import Uniform
            d = Uniform(jnp.asarray([-1.0, 0.2]), jnp.asarray([0.5, 1.5]))
            kind = "Uniform((2,)) [bounded support]"
        else:
            from flowjax.bijections import Exp
            class LinV(eqx.Module):
                W: jax.Array
                def __call__(self, c):
                    return self.W @ c
            d = Transformed(Normal(jnp.zeros(2), jnp.ones(2)), Chain([AdditiveCondition(LinV(jr.normal(key, (2, 3))), (2,), (3,)), Exp((2,))]))
            kind = "Transformed(Normal(2), Chain[AdditiveCondition cond (3,), Exp]) [conditional, support (0, inf)^2]"
        event, cshape = d.shape, d.cond_shape
        batches = BATCHES if full else [(), (4,), (5, 1), (1, 4), (2, 5, 4)]
        cbatches_ = batches if cshape is not None else [()]
        for xb, cb in list(itertools.product(batches, cbatches_)) + list(itertools.product([(0,), (2, 0)], cbatches_)):
            try:
                bshape = np.broadcast_shapes(xb, cb)
            except ValueError:
                continue
            if not full and int(np.prod(bshape, dtype=int)) > 20:
                continue
            case = {"dist": kind, "method": "log_prob", "x_batch": xb, "cond_batch": cb}
            x = rng.normal(size=xb + event)
            c = rng.normal(size=cb + cshape) if cshape is not None else None
            J_ = lambda a: None if a is None else jnp.asarray(a)
            lp = np.asarray(d.log_prob(jnp.asarray(x), J_(c)), dtype=np.float64)
            rec.evals += 1
            rec.hashes.add(("real", which, xb, cb))
            if lp.shape != bshape:
                v("logprob.shape", f"{kind}.log_prob shape {lp.shape}, expected {bshape}", case)
                continue
            xbb = np.broadcast_to(x, bshape + event)
            cbb = None if c is None else np.broadcast_to(c, bshape + cshape)
            ref = np.empty(bshape)
            for idx in np.ndindex(*bshape):
                ref[idx] = float(d.log_prob(jnp.asarray(xbb[idx]), None if cbb is None else jnp.asarray(cbb[idx])))
                rec.count("unbatched_reference_calls")
            rec.count("reference_elements_outside_support", int(np.isneginf(ref).sum()))
            rec.count("reference_elements_inside_support", int(np.isfinite(ref).sum()))
            if not np.allclose(lp, ref, rtol=1e-12, atol=1e-12):
                i = tuple(int(t) for t in np.argwhere(~np.isclose(lp, ref, rtol=1e-12, atol=1e-12))[0])
                v("logprob.value", f"{kind}.log_prob element {i} = {lp[i]!r} but the unbatched call on the broadcast slice gives {ref[i]!r} (x{xb} cond{cb})", case)
            if lp.size >= 2:
                rec.nontrivial.add(("real", which, xb, cb))
        for ss, cb in itertools.product(SAMPLE_SHAPES if full else [(), (3,)], ([(), (4,), (2, 2)] if full else [(), (4,)]) if cshape is not None else [()]):
            case = {"dist": kind, "method": "sample_and_log_prob", "sample_shape": ss, "cond_batch": cb}
            c = rng.normal(size=cb + cshape) if cshape is not None else None
            key = jr.PRNGKey(int(rng.integers(0, 2**31 - 1)))
            s, lp = d.sample_and_log_prob(key, ss, J_(c))
            s1 = d.sample(key, ss, J_(c))
            s, lp, s1 = np.asarray(s, dtype=np.float64), np.asarray(lp, dtype=np.float64), np.asarray(s1, dtype=np.float64)
            rec.evals += 1
            rec.hashes.add(("real-s", which, ss, cb))
            bs = ss + cb
            if s.shape != bs + event or lp.shape != bs:
                v("sample.shape", f"{kind}.sample_and_log_prob shapes {s.shape}/{lp.shape}, expected {bs + event}/{bs}", case)
                continue
            if not np.allclose(s, s1, rtol=1e-12, atol=1e-12):
                v("sample.paths_differ", f"{kind}: sample(key) and sample_and_log_prob(key) return different samples", case)
            cbb = None if c is None else np.broadcast_to(c, bs + cshape)
            flat = s.reshape((-1,) + event).reshape(len(s.reshape((-1,) + event)), -1)
            if len(np.unique(flat[:, 0])) != flat.shape[0]:
                v("sample.repeated_draws", f"{kind}: {flat.shape[0] - len(np.unique(flat[:, 0]))} repeated draws inside one batched sample (sample_shape {ss} cond{cb})", case)
            for idx in list(np.ndindex(*bs))[:12]:
                r = float(d.log_prob(jnp.asarray(s[idx]), None if cbb is None else jnp.asarray(cbb[idx])))
                rec.count("unbatched_reference_calls")
                if not np.isclose(lp[idx], r, rtol=1e-9, atol=1e-9):
                    v("sample_and_log_prob.value", f"{kind}: returned log-prob {lp[idx]!r} at {idx} but log_prob(sample[idx], condition[idx]) = {r!r}", case)
                    break
            if s.size >= 2:
                rec.nontrivial.add(("real-s", which, ss, cb))
        if len(rec.samples) < 2:
            rec.samples.append({"dist": kind, "checked": "batched log_prob vs loop of unbatched calls; sample_and_log_prob vs log_prob(sample)"})

    if shard["kind"] == "tag":
        run_tag(EVENTS[shard["event"]], CONDS[shard["cond"]])
    else:
        run_real(shard["which"], shard.get("full", False))
    out = rec.result()
    out["evaluations"] = rec.evals
    if not shard.get("replay"):
        if shard["kind"] == "tag":
            out["required"] = {"logprob_elements_decoded": rec.counters.get("logprob_elements_decoded", 0),
                               "sample_elements_decoded": rec.counters.get("sample_elements_decoded", 0)}
        else:
            out["required"] = {"unbatched_reference_calls": rec.counters.get("unbatched_reference_calls", 0)}
    return out
