"""C09 - autoregressive, coupling and block structure holds for all weights.

Invariant monitor on the real layers: the float64 autodiff Jacobians of `transform` (w.r.t. x and w.r.t. the
condition) and of the unwrapped masked conditioner network are inspected after *every trainable leaf has been
overwritten* (initialisation, N(0,5^2), +-50 corners, all-positive), so a mask applied at construction instead of
at unwrap would be exposed.  Forbidden entries must be exactly 0.0; with all-positive weights, relu and positive
inputs every permitted path is active, so a missing permitted dependency shows as a zero.  The mask helpers are
compared with their NumPy definitions for every size."""
from __future__ import annotations

import itertools

import numpy as np

PROPERTY = "C09"
LEVEL = "exploration"
NEEDS_SHIM = False
RULE = ("grid (thorough: enumerated exhaustively; quick: every second configuration, parity chosen by the seed): MaskedAutoregressive and Coupling over dim 1-4 x cond_dim {None,1,2} x width 1-5 x depth 0-2 x "
        "transformer {Loc (1 param), Affine (2), RationalQuadraticSpline knots=1 (5)}; BlockAutoregressiveNetwork over dim 1-4 x "
        "cond_dim {None,2} x depth 0-2 x block_dim 1-3; x weight modes {init, N(0,25), +-50 corners, all-positive} (quick: 2 of them per "
        "configuration, all-positive always) x 6 inputs; mask helpers for every size up to 6x6 blocks x 5 blocks x k in {-1,0,1}. "
        "A case = (layer configuration, weight mode, input); non-trivial = weights are not the initial ones; distinct = distinct tuples")
ASSUMPTIONS = [
    "forbidden Jacobian entries must be exactly 0.0 (masked weights multiply by an exact zero)",
    "permitted-dependency clause: only for hidden width >= dim, all-positive raw weights/biases, relu, strictly positive inputs and "
    "conditions inside the transformer's spline interval (a dead relu or the spline's identity tail may legitimately hide one elsewhere)",
    "BNAF strict positivity of the diagonal is evaluated in float64 (1e-70 at the +-50 corners)",
]
ANCHOR_FILES = ["bijections/masked_autoregressive.py", "masks.py", "bijections/coupling.py", "bijections/block_autoregressive_network.py", "wrappers.py"]
REQUIRED_FUNCS = ["bijections/masked_autoregressive.py:masked_autoregressive_mlp", "bijections/masked_autoregressive.py:MaskedAutoregressive.transform",
                  "masks.py:rank_based_mask", "masks.py:block_diag_mask", "masks.py:block_tril_mask", "bijections/coupling.py:Coupling.transform",
                  "bijections/block_autoregressive_network.py:BlockAutoregressiveNetwork.transform",
                  "bijections/block_autoregressive_network.py:block_autoregressive_linear", "wrappers.py:Where.unwrap"]


def grid():
    G = []
    for dim, cd, w, dep, tr in itertools.product([1, 2, 3, 4], [None, 1, 2], [1, 2, 3, 4, 5], [0, 1, 2], ["Loc", "Affine", "RQS"]):
        G.append({"layer": "MAF", "dim": dim, "cond_dim": cd, "width": w, "depth": dep, "tr": tr})
    for dim, cd, w, dep, tr in itertools.product([2, 3, 4], [None, 1, 2], [1, 3, 5], [0, 1, 2], ["Loc", "Affine", "RQS"]):
        for ud in range(1, dim):
            G.append({"layer": "Coupling", "dim": dim, "cond_dim": cd, "width": w, "depth": dep, "tr": tr, "ud": ud})
    for dim, cd, dep, bd in itertools.product([1, 2, 3, 4], [None, 2], [0, 1, 2], [1, 2, 3]):
        G.append({"layer": "BNAF", "dim": dim, "cond_dim": cd, "depth": dep, "block_dim": bd})
    return G


def plan(tier, seed):
    G = grid()
    if tier != "thorough":  # quick: a seed-dependent half of the grid (thorough enumerates all of it, 4 weight modes, 3 seeds)
        G = G[(seed % 2)::2]
    nsh = 16
    modes = ["init", "positive", "normal5", "corner"] if tier == "thorough" else None
    return [{"name": f"C09-{i}", "shard": i, "configs": G[i::nsh], "modes": modes, "seeds": 3 if tier == "thorough" else 1, "masks": i == 0,
             "x64": True, "timeout": 3400} for i in range(nsh)]


def run_shard(shard):
    import equinox as eqx
    import jax
    import jax.numpy as jnp
    import jax.random as jr
    import flowjax.bijections as B
    from flowjax import masks
    from flowjax.bijections.masked_autoregressive import masked_autoregressive_mlp
    from flowjax.wrappers import unwrap
    from fjmon.bijcheck import Recorder
    from fjmon.common import chash, jsonable, set_leaves

    rec = Recorder(shard, "C09")
    cases = set()

    def v(mech, msg, cfg, detail=None):
        rec.violation(mech, msg, {"config": cfg, "origin": "grid"}, ("init", 0.0), detail or {})

    def transformer(name):
        if name == "Loc":
            return B.Loc(jnp.zeros(())), 1
        if name == "Affine":
            return B.Affine(), 2
        return B.RationalQuadraticSpline(knots=1, interval=4), 5

    def overwrite(b, mode, rng):
        if mode == "init":
            return b
        if mode == "positive":
            return set_leaves(b, lambda i, a: rng.uniform(0.2, 1.5, size=a.shape))
        if mode == "normal5":
            return set_leaves(b, lambda i, a: rng.normal(size=a.shape) * 5.0)
        if mode == "corner":
            return set_leaves(b, lambda i, a: rng.choice([-50.0, 50.0], size=a.shape))
        if mode == "huge":  # beyond exp's float64 range: softplus-type reparameterisations stay finite there, exp-type ones do not.
            # Positive only: at raw values below about -745 softplus itself underflows to 0 (a zero row norm, 0/0), which is the
            # float range the statement's neighbour C11 excludes (|raw| <= 50), not a defect.
            return set_leaves(b, lambda i, a: rng.choice([400.0, 800.0, 1500.0], size=a.shape))
        raise KeyError(mode)

    def inputs(dim, cd, mode, rng):
        n = 6
        if mode == "positive":
            x = rng.uniform(0.3, 2.5, size=(n, dim))
            c = None if cd is None else rng.uniform(0.3, 2.5, size=(n, cd))
        else:
            x = rng.normal(size=(n, dim)) * rng.choice([0.3, 1.0, 3.0], size=(n, 1))
            c = None if cd is None else rng.normal(size=(n, cd))
        return x, c

    @eqx.filter_jit
    def _all(b, X, C, want_mlp):
        """One compiled program per configuration: Jacobians w.r.t. x and the condition, outputs, conditioner Jacobian."""
        out = {}
        if C is None:
            out["Jx"] = jax.vmap(jax.jacfwd(lambda v_: b.transform(v_)))(X)
            out["Y"] = jax.vmap(lambda v_: b.transform(v_))(X)
        else:
            out["Jx"] = jax.vmap(jax.jacfwd(lambda v_, w: b.transform(v_, w), argnums=0))(X, C)
            out["Jc"] = jax.vmap(jax.jacfwd(lambda v_, w: b.transform(v_, w), argnums=1))(X, C)
            out["Y"] = jax.vmap(lambda v_, w: b.transform(v_, w))(X, C)
        if want_mlp:
            mlp = unwrap(b).masked_autoregressive_mlp
            nn_in = X if C is None else jnp.concatenate([X, C], 1)
            out["Jm"] = jax.vmap(jax.jacfwd(mlp))(nn_in)
        return out

    def jacs_batched(b, xs, cs, want_mlp):
        o = _all(b, jnp.asarray(xs), None if cs is None else jnp.asarray(cs), want_mlp)
        g = lambda k: None if k not in o else np.asarray(o[k], dtype=np.float64)
        return g("Jx"), g("Jc"), g("Y"), g("Jm")

    for cfg in shard["configs"]:
        only = shard.get("items")
        if only and only[0]["config"] != cfg:
            continue
        layer, dim, cd = cfg["layer"], cfg["dim"], cfg["cond_dim"]
        rec.count("configs")
        rec.count("layer_" + layer)
        modes = list(shard.get("modes") or ["positive", ["init", "normal5", "corner"][int(chash(cfg), 16) % 3]])
        if layer == "BNAF":
            modes.append("huge")
        for seed in range(shard.get("seeds", 1)):
            rng = np.random.default_rng([shard["seed"], 9, seed, int(chash(cfg), 16) % (2**31)])
            key = jr.PRNGKey(int(rng.integers(0, 2**31 - 1)))
            try:
                if layer == "MAF":
                    tr, P = transformer(cfg["tr"])
                    b0 = B.MaskedAutoregressive(key, transformer=tr, dim=dim, cond_dim=cd, nn_width=cfg["width"], nn_depth=cfg["depth"])
                elif layer == "Coupling":
                    tr, P = transformer(cfg["tr"])
                    b0 = B.Coupling(key, transformer=tr, untransformed_dim=cfg["ud"], dim=dim, cond_dim=cd, nn_width=cfg["width"], nn_depth=cfg["depth"])
                else:
                    b0 = B.BlockAutoregressiveNetwork(key, dim=dim, cond_dim=cd, depth=cfg["depth"], block_dim=cfg["block_dim"])
            except Exception as e:  # noqa: BLE001
                v(f"build.{type(e).__name__}", f"{cfg}: constructor raised {type(e).__name__}: {str(e)[:200]}", cfg)
                break
            for mode in modes:
                b = overwrite(b0, mode, rng)
                xs, cs = inputs(dim, cd, mode, rng)
                try:
                    JX, JC, YY, JM = jacs_batched(b, xs, cs, layer == "MAF")
                except Exception as e:  # noqa: BLE001
                    v(f"exception.{type(e).__name__}", f"{cfg} [{mode}]: transform/jacobian raised {type(e).__name__}: {str(e)[:200]}", cfg)
                    break
                for i in range(len(xs)):
                    x, c = xs[i], None if cs is None else cs[i]
                    case = (str(sorted(cfg.items())), mode, seed, i)
                    cases.add(case)
                    rec.evals += 1
                    if mode != "init":
                        rec.nontrivial.add(case)
                    Jx, Jc = JX[i], None if JC is None else JC[i]
                    det = {"mode": mode, "x": x, "condition": c, "jacobian_x": Jx}
                    finite = np.isfinite(Jx).all()
                    if layer == "MAF":
                        upper = np.triu(Jx, 1)
                        rec.count("forbidden_entries_checked", int(dim * (dim - 1) / 2))
                        if np.any(upper != 0):
                            r, cc = np.argwhere(upper != 0)[0]
                            v("maf.not_autoregressive", f"{cfg} [{mode}]: d y[{r}] / d x[{cc}] = {Jx[r, cc]!r} (output depends on a later input)", cfg, det)
                            break
                        # (scale underflow of an unbounded Affine transformer under large random weights legitimately
                        #  zeroes a diagonal entry, so this clause is only evaluated for init / all-positive weights)
                        if finite and np.any(np.diag(Jx) == 0) and mode in ("init", "positive"):
                            v("maf.zero_diagonal", f"{cfg} [{mode}]: output {int(np.argwhere(np.diag(Jx) == 0)[0][0])} does not depend on its own input", cfg, det)
                            break
                        # transformer parameters of output i depend only on inputs before i (and freely on the condition)
                        Jm = JM[i]  # (dim*P, dim[+cd])
                        P_ = Jm.shape[0] // dim
                        rank_out = np.repeat(np.arange(dim), P_)
                        forb = rank_out[:, None] <= np.arange(dim)[None, :]
                        rec.count("forbidden_entries_checked", int(forb.sum()))
                        if np.any(Jm[:, :dim][forb] != 0):
                            r, cc = np.argwhere((Jm[:, :dim] != 0) & forb)[0]
                            v("maf.params_depend_on_later_input", f"{cfg} [{mode}]: transformer parameter {r} (of output {r // P_}) depends on input {cc}", cfg,
                              {"mode": mode, "x": x, "condition": c, "mlp_jacobian": Jm})
                            break
                        if mode == "positive" and cfg["width"] >= dim:
                            perm = ~forb
                            rec.count("permitted_entries_checked", int(perm.sum()) + (0 if c is None else Jm[:, dim:].size))
                            miss = perm & ~(Jm[:, :dim] > 0)
                            if np.any(miss):
                                r, cc = np.argwhere(miss)[0]
                                v("maf.permitted_dependency_missing", f"{cfg} [all-positive]: transformer parameter {r} (of output {r // P_}) does not depend on "
                                                                      f"earlier input {cc} although width >= dim", cfg, {"mlp_jacobian": Jm, "x": x})
                                break
                            if c is not None and not np.all(Jm[:, dim:] > 0):
                                r, cc = np.argwhere(~(Jm[:, dim:] > 0))[0]
                                v("maf.condition_dependency_missing", f"{cfg} [all-positive]: transformer parameter {r} does not depend on condition entry {cc}", cfg,
                                  {"mlp_jacobian": Jm})
                                break
                            low = np.tril(np.ones((dim, dim), bool), -1)
                            if finite and np.any(Jx[low] == 0):
                                r, cc = np.argwhere(low & (Jx == 0))[0]
                                v("maf.permitted_dependency_missing", f"{cfg} [all-positive]: d y[{r}] / d x[{cc}] is zero although width >= dim", cfg, det)
                                break
                    elif layer == "Coupling":
                        ud = cfg["ud"]
                        y = YY[i]
                        rec.count("forbidden_entries_checked", ud + (dim - ud) * (dim - ud - 1))
                        if not np.array_equal(y[:ud], x[:ud]):
                            v("coupling.first_block_changed", f"{cfg} [{mode}]: first block {x[:ud].tolist()} returned as {y[:ud].tolist()}", cfg, det)
                            break
                        if not np.array_equal(Jx[:ud], np.eye(dim)[:ud]):
                            v("coupling.first_block_changed", f"{cfg} [{mode}]: Jacobian rows of the first block are not the identity", cfg, det)
                            break
                        sub = Jx[ud:, ud:]
                        off = ~np.eye(dim - ud, dtype=bool)
                        if np.any(sub[off] != 0):
                            r, cc = np.argwhere((sub != 0) & off)[0]
                            v("coupling.cross_dependency", f"{cfg} [{mode}]: transformed coordinate {ud + r} depends on transformed coordinate {ud + cc}", cfg, det)
                            break
                        if mode == "positive" and cfg["width"] >= dim:
                            rec.count("permitted_entries_checked", (dim - ud) * ud + (0 if Jc is None else (dim - ud) * Jc.shape[1]))
                            if finite and np.any(Jx[ud:, :ud] == 0):
                                v("coupling.permitted_dependency_missing", f"{cfg} [all-positive]: a transformed coordinate does not depend on the first block", cfg, det)
                                break
                            if Jc is not None and np.isfinite(Jc).all() and np.any(Jc[ud:] == 0):
                                v("coupling.condition_dependency_missing", f"{cfg} [all-positive]: a transformed coordinate does not depend on the condition", cfg, det)
                                break
                        if Jc is not None and np.any(Jc[:ud] != 0):
                            v("coupling.first_block_changed", f"{cfg} [{mode}]: the first block depends on the condition", cfg, det)
                            break
                    elif mode == "huge":  # BNAF, positive weights of magnitude 400..1500: "whatever values the weights take" - the Jacobian must stay a number
                        # (the diagonal may legitimately underflow to 0 through saturated activations, so only NaN is judged here)
                        rec.count("bnaf_huge_weight_cases")
                        if np.isnan(Jx).any() or np.isnan(YY[i]).any():
                            v("bnaf.nan_at_huge_weights", f"{cfg} [weights 400..1500]: NaN in the output / Jacobian {Jx.tolist()}", cfg, det)
                            break
                        if np.any(np.triu(Jx, 1) != 0):
                            v("bnaf.not_triangular", f"{cfg} [{mode}]: non-zero entry above the diagonal", cfg, det)
                            break
                    else:  # BNAF
                        rec.count("forbidden_entries_checked", int(dim * (dim - 1) / 2))
                        if np.any(np.triu(Jx, 1) != 0):
                            r, cc = np.argwhere(np.triu(Jx, 1) != 0)[0]
                            v("bnaf.not_triangular", f"{cfg} [{mode}]: d y[{r}] / d x[{cc}] = {Jx[r, cc]!r} above the diagonal", cfg, det)
                            break
                        if not finite or not np.all(np.diag(Jx) > 0):
                            v("bnaf.diagonal_not_positive", f"{cfg} [{mode}]: Jacobian diagonal {np.diag(Jx).tolist()} is not strictly positive", cfg, det)
                            break
                        rec.count("diagonal_positivity_checked", dim)
                        if mode == "positive":
                            low = np.tril(np.ones((dim, dim), bool), -1)
                            rec.count("permitted_entries_checked", int(low.sum()))
                            if np.any(Jx[low] == 0):
                                v("bnaf.permitted_dependency_missing", f"{cfg} [all-positive]: a below-diagonal Jacobian entry is zero", cfg, det)
                                break
                    if len(rec.samples) < 3 and mode == "positive" and dim >= 3 and i == 0:
                        rec.samples.append(jsonable({"config": cfg, "mode": mode, "x": x, "condition": c, "jacobian_x": Jx}))
                else:
                    continue
                break

    # ------------------------------------------------------------------ mask helpers -------
    if shard.get("masks") and not shard.get("items"):
        for a, b_ in itertools.product(range(1, 7), range(1, 7)):
            for eq in (False, True):
                rng = np.random.default_rng([a, b_, int(eq)])
                in_r, out_r = rng.integers(-1, 4, size=a), rng.integers(-1, 4, size=b_)
                got = np.asarray(masks.rank_based_mask(jnp.asarray(in_r), jnp.asarray(out_r), eq=eq))
                want = np.array([[(o >= i) if eq else (o > i) for i in in_r] for o in out_r])
                rec.evals += 1
                rec.count("mask_helper_checks")
                cases.add(("rank", a, b_, eq))
                rec.nontrivial.add(("rank", a, b_, eq))
                if got.shape != want.shape or not np.array_equal(got, want):
                    v("mask.rank_based", f"rank_based_mask({in_r.tolist()}, {out_r.tolist()}, eq={eq}) = {got.astype(int).tolist()}, definition gives {want.astype(int).tolist()}",
                      {"helper": "rank_based_mask"})
        # ranks of every integer dtype and of a spread that leaves the dtype's range when subtracted (the documented
        # pattern is a comparison of the rank *values*; the property says "exactly ... for every size")
        for dt in ("int8", "int16", "int32", "int64", "uint8", "uint16", "uint32"):
            info = np.iinfo(dt)
            for a, b_, eq in itertools.product((1, 3, 5), (2, 4), (False, True)):
                rng = np.random.default_rng([a, b_, int(eq), info.bits])
                for span in ("small", "full"):
                    lo, hi = (max(info.min, -1), 4) if span == "small" else (int(info.min), int(info.max))
                    in_r = rng.integers(lo, hi, size=a, endpoint=True, dtype=np.int64 if info.bits < 64 else np.int64).astype(dt)
                    out_r = rng.integers(lo, hi, size=b_, endpoint=True, dtype=np.int64).astype(dt)
                    if span == "full":
                        in_r[0], out_r[0] = info.min, info.max
                        out_r[-1] = in_r[-1]
                    got = np.asarray(masks.rank_based_mask(jnp.asarray(in_r), jnp.asarray(out_r), eq=eq))
                    want = np.array([[(int(o) >= int(i)) if eq else (int(o) > int(i)) for i in in_r] for o in out_r])
                    rec.evals += 1
                    rec.count("mask_helper_checks")
                    rec.count("mask_rank_dtype_checks")
                    rec.nontrivial.add(("rank", dt, span, a, b_, eq))
                    if got.shape != want.shape or not np.array_equal(got, want):
                        v("mask.rank_based", f"rank_based_mask({in_r.tolist()}, {out_r.tolist()}, eq={eq}) [{dt}] = {got.astype(int).tolist()}, "
                                             f"definition gives {want.astype(int).tolist()}", {"helper": "rank_based_mask", "dtype": dt})
        for (r, c), n in itertools.product(itertools.product(range(1, 7), range(1, 7)), range(1, 6)):
            got = np.asarray(masks.block_diag_mask((r, c), n))
            want = np.kron(np.eye(n), np.ones((r, c))).astype(bool)
            rec.evals += 1
            rec.count("mask_helper_checks")
            rec.nontrivial.add(("diag", r, c, n))
            if got.shape != want.shape or not np.array_equal(got, want):
                v("mask.block_diag", f"block_diag_mask(({r},{c}), {n}) differs from kron(eye, ones)", {"helper": "block_diag_mask"})
            for k in (-1, 0, 1):
                got = np.asarray(masks.block_tril_mask((r, c), n, k))
                want = np.kron(np.tril(np.ones((n, n)), k), np.ones((r, c))).astype(bool)
                rec.evals += 1
                rec.count("mask_helper_checks")
                rec.nontrivial.add(("tril", r, c, n, k))
                if got.shape != want.shape or not np.array_equal(got, want):
                    v("mask.block_tril", f"block_tril_mask(({r},{c}), {n}, k={k}) differs from kron(tril(ones, k), ones)", {"helper": "block_tril_mask"})
    out = rec.result()
    if not shard.get("replay"):
        out["required"] = {"forbidden_entries_checked": rec.counters.get("forbidden_entries_checked", 0),
                           "permitted_entries_checked": rec.counters.get("permitted_entries_checked", 0)}
        if shard.get("masks"):
            out["required"]["mask_helper_checks"] = rec.counters.get("mask_helper_checks", 0)
    return out
