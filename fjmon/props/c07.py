"""C07 - elementary bijections compute their documented functions.

Reference-model monitor: independent float64 NumPy implementations written from the docstrings and the cited
papers (affine maps, triangle selection, exp/softplus/tanh, leaky tanh = tanh inside +-max_val and its tangent
line outside, C-order permutation, flip, x + f(condition), planar x + u_hat*act(w.x+b), Durkan et al. eq. 4 through
the knots read from the unwrapped spline, identity outside) are compared with `transform` of the real objects,
built through the public constructors with generated arguments, on boundary-directed inputs."""
from __future__ import annotations

import math

import numpy as np

PROPERTY = "C07"
LEVEL = "exploration"
RULE = ("instances = every elementary class x generated constructor arguments (broadcasting loc/scale of rank 0-3, lower/upper "
        "triangles, permutations of rank 1-3, max_val, interval tuple/scalar, knots 1-8, min_derivative, planar dims/slopes, "
        "conditional planar) x parameter modes (as constructed; raw leaves perturbed) x boundary-directed inputs (random, exact "
        "knots / interval ends / +-max_val with ulp neighbours, magnitudes to 1e6). A case = (instance, parameter mode, input); "
        "non-trivial = reference output differs from the input by > 1e-9; distinct_nontrivial = hashed (instance args, mode, input index) "
        "representatives, up to 8 per (instance, mode)")
ASSUMPTIONS = [
    "as-constructed instances are compared against the constructor ARGUMENTS; perturbed instances against the unwrapped fields "
    "(how raw parameters map to constrained ones is C11's business)",
    "planar: the reference uses the library's u_hat after checking it differs from u only along w and satisfies w.u_hat > -1 "
    "(the library's m(a) = -1 + log(1+softplus(a)) is not the paper's -1 + softplus(a); both keep the layer invertible)",
    "tolerance 1e-10 (1+|x|+|y|) in float64 (1e-4 in float32)",
]
ANCHOR_FILES = ["bijections/affine.py", "bijections/exp.py", "bijections/softplus.py", "bijections/tanh.py", "bijections/utils.py",
                "bijections/planar.py", "bijections/rational_quadratic_spline.py"]
REQUIRED_FUNCS = ["bijections/affine.py:Affine.transform", "bijections/affine.py:Loc.transform", "bijections/affine.py:Scale.transform",
                  "bijections/affine.py:TriangularAffine.transform", "bijections/affine.py:AdditiveCondition.transform",
                  "bijections/exp.py:Exp.transform", "bijections/softplus.py:SoftPlus.transform", "bijections/tanh.py:Tanh.transform",
                  "bijections/tanh.py:LeakyTanh.transform", "bijections/utils.py:Permute.transform", "bijections/utils.py:Flip.transform",
                  "bijections/utils.py:Identity.transform", "bijections/planar.py:_UnconditionalPlanar.transform",
                  "bijections/planar.py:_UnconditionalPlanar.get_act_scale",
                  "bijections/rational_quadratic_spline.py:RationalQuadraticSpline.transform",
                  "bijections/rational_quadratic_spline.py:_real_to_increasing_on_interval"]

KINDS = ["Affine", "Loc", "Scale", "TriangularAffine", "Exp", "SoftPlus", "Tanh", "LeakyTanh", "Permute", "Flip", "Identity",
         "AdditiveCondition", "Planar", "PlanarCond", "RQS"]


def plan(tier, seed):
    nsh = 16
    per_kind = 3 if tier != "thorough" else 30
    shards = [{"name": f"C07-{i}", "shard": i, "nshards": nsh, "per_kind": per_kind, "x64": True, "timeout": 3000} for i in range(nsh)]
    if tier == "thorough":
        shards += [{"name": f"C07-f32-{i}", "shard": 100 + i, "nshards": 4, "per_kind": 10, "x64": False, "timeout": 3000} for i in range(4)]
    return shards


# ------------------------------------------------------------------ references -----------
def ref_softplus(x):
    return np.logaddexp(0.0, x)


def ref_leaky_tanh(x, m):
    t = math.tanh(m)
    slope = 1.0 - t * t
    out = np.tanh(x)
    hi, lo = x >= m, x <= -m
    out = np.where(hi, t + slope * (x - m), out)
    out = np.where(lo, -t + slope * (x + m), out)
    return out


def ref_rqs(x, x_pos, y_pos, d, lo, hi):
    """Durkan et al. (2019) eq. 4; identity outside [lo, hi]."""
    x = np.asarray(x, dtype=np.float64)
    K = len(x_pos) - 1
    inb = (x >= lo) & (x <= hi)
    xs = np.where(inb, x, x_pos[0])
    k = np.clip(np.searchsorted(x_pos, xs, side="right") - 1, 0, K - 1)
    w = x_pos[k + 1] - x_pos[k]
    h = y_pos[k + 1] - y_pos[k]
    s = h / w
    xi = (xs - x_pos[k]) / w
    num = h * (s * xi**2 + d[k] * xi * (1 - xi))
    den = s + (d[k + 1] + d[k] - 2 * s) * xi * (1 - xi)
    y = y_pos[k] + num / den
    return np.where(inb, y, x)


def run_shard(shard):
    import equinox as eqx
    import jax
    import jax.numpy as jnp
    import jax.random as jr
    import flowjax.bijections as B
    from flowjax.bijections.planar import _UnconditionalPlanar
    from flowjax.wrappers import unwrap
    from fjmon import bijbundle as BB
    from fjmon import specs as S
    from fjmon.bijcheck import Recorder
    from fjmon.common import chash, jsonable, perturb

    x64 = shard.get("x64", True)
    fdt = np.float64 if x64 else np.float32
    rtol = 1e-10 if x64 else 1e-4
    rec = Recorder(shard, "C07")
    rng = np.random.default_rng([shard["seed"], 7, shard["shard"]])
    J = lambda a: jnp.asarray(np.asarray(a), dtype=fdt)

    def rand_shape(maxrank=3):
        r = int(rng.integers(0, maxrank + 1))
        return tuple(int(v) for v in rng.permutation([2, 3, 5, 7])[:r])

    def bshapes(shape):
        """Two shapes that broadcast to `shape` (NumPy rules)."""
        def drop(sh):
            sh = list(sh)
            for i in range(len(sh)):
                if rng.random() < 0.3:
                    sh[i] = 1
            k = int(rng.integers(0, len(sh) + 1))
            return tuple(sh[k:]) if all(s == 1 for s in sh[:k]) or rng.random() < 0.5 else tuple(sh)
        a, b = drop(shape), drop(shape)
        if np.broadcast_shapes(a, b) != tuple(shape):
            b = tuple(shape)
        return a, b

    def gen_instance(kind):
        """-> (args dict (jsonable), build() -> bijection, ref(x, c, obj|None) -> y, shape, cond_shape, crit, tags)"""
        z = lambda sh: np.zeros(sh, dtype=int)
        if kind in ("Affine", "Loc", "Scale"):
            shape = rand_shape()
            la, sa = bshapes(shape)
            mag = float(rng.choice([1e-3, 1.0, 1.0, 50.0]))
            loc = rng.normal(size=la) * float(rng.choice([0.1, 3.0, 10.0]))
            scale = np.exp(rng.uniform(-1.5, 1.5, size=sa)) * mag
            if kind == "Affine":
                args = {"loc": loc, "scale": scale}
                return args, (lambda: B.Affine(J(loc), J(scale))), (lambda x, c, o: (o.scale if o is not None else scale) * x + (o.loc if o is not None else loc)), tuple(shape), None, {}, z(shape)
            if kind == "Loc":
                loc = np.broadcast_to(loc, shape).copy()
                return {"loc": loc}, (lambda: B.Loc(J(loc))), (lambda x, c, o: x + (o.loc if o is not None else loc)), tuple(shape), None, {}, z(shape)
            scale = np.broadcast_to(scale, shape).copy()
            return {"scale": scale}, (lambda: B.Scale(J(scale))), (lambda x, c, o: x * (o.scale if o is not None else scale)), tuple(shape), None, {}, z(shape)
        if kind == "TriangularAffine":
            d = int(rng.integers(1, 7))
            arr = rng.normal(size=(d, d)) * 1.5
            arr[np.diag_indices(d)] = np.exp(rng.uniform(-1.5, 1.5, d))
            lower = bool(rng.random() < 0.5)
            loc = rng.normal(size=(d,)) * 3 if rng.random() < 0.7 else np.asarray(rng.normal() * 3)
            def ref(x, c, o):
                A = (np.tril(arr) if lower else np.triu(arr)) if o is None else o.triangular
                return x @ A.T + (np.broadcast_to(loc, (d,)) if o is None else o.loc)
            return {"loc": loc, "arr": arr, "lower": lower}, (lambda: B.TriangularAffine(J(loc), J(arr), lower=lower)), ref, (d,), None, {}, z((d,))
        if kind in ("Exp", "SoftPlus", "Tanh", "Flip", "Identity"):
            shape = rand_shape()
            f = {"Exp": np.exp, "SoftPlus": ref_softplus, "Tanh": np.tanh, "Identity": lambda v: v,
                 "Flip": lambda v: np.flip(v, axis=tuple(range(1, v.ndim)))}[kind]
            return {"shape": shape}, (lambda: getattr(B, kind)(shape)), (lambda x, c, o: f(x)), shape, None, {}, z(shape)
        if kind == "LeakyTanh":
            shape = rand_shape()
            m = float(rng.choice([0.25, 0.5, 1, 2, 3, 5.5]))
            crit = {"leaky_switch_x": [m, -m]}
            return {"max_val": m, "shape": shape}, (lambda: B.LeakyTanh(m, shape)), (lambda x, c, o: ref_leaky_tanh(x, m)), shape, None, crit, z(shape)
        if kind == "Permute":
            shape = rand_shape()
            while len(shape) == 0:
                shape = rand_shape()
            n = int(np.prod(shape))
            perm = rng.permutation(n).reshape(shape)
            def ref(x, c, o):
                N = x.shape[0]
                return x.reshape(N, -1)[:, perm.ravel()].reshape((N, *shape))
            return {"permutation": perm}, (lambda: B.Permute(jnp.asarray(perm))), ref, shape, None, {}, z(shape)
        if kind == "AdditiveCondition":
            shape, cshape = rand_shape(2), rand_shape(2)
            W = rng.normal(size=(int(np.prod(shape, dtype=int)), int(np.prod(cshape, dtype=int))))
            def build():
                class F(eqx.Module):
                    W: jax.Array
                    def __call__(self, c):
                        return (self.W @ jnp.ravel(c)).reshape(shape)
                return B.AdditiveCondition(F(J(W)), shape, cshape)
            def ref(x, c, o):
                Wn = W if o is None else np.asarray(o.module.W, dtype=np.float64)
                N = x.shape[0]
                return x + (c.reshape(N, -1) @ Wn.T).reshape((N, *shape))
            return {"shape": shape, "cond_shape": cshape, "W": W}, build, ref, shape, cshape, {}, z(shape)
        if kind in ("Planar", "PlanarCond"):
            d = int(rng.integers(1, 6))
            ns = [None, 0.1, 0.5, 0.9, 1.0, 1.5, 4.0][int(rng.integers(0, 7))]  # any positive slope is accepted, also above 1
            cd = int(rng.integers(1, 4)) if kind == "PlanarCond" else None
            seed = int(rng.integers(0, 2**31 - 1))
            pscale = float(rng.choice([0.01, 1.0, 2.0]))
            def build():
                b = B.Planar(jr.PRNGKey(seed), dim=d, cond_dim=cd, negative_slope=ns, **({"width_size": 4, "depth": 1} if cd else {}))
                if cd is None:
                    b = eqx.tree_at(lambda p: p.params, b, J(np.random.default_rng(seed).normal(size=2 * d + 1) * pscale))
                return b
            def ref(x, c, o, _state={}):
                N = x.shape[0]
                b = _state["obj"]
                if cd is None:
                    params = np.broadcast_to(np.asarray(b.params, dtype=np.float64), (N, 2 * d + 1))
                else:
                    params = np.asarray(jax.vmap(b.conditioner)(J(c)), dtype=np.float64)
                w, u, bias = params[:, :d], params[:, d:2 * d], params[:, -1]
                uhat = np.stack([np.asarray(_UnconditionalPlanar(J(w[i]), J(u[i]), J(bias[i]), ns).get_act_scale(), dtype=np.float64) for i in range(N)]) \
                    if cd is not None else np.broadcast_to(np.asarray(_UnconditionalPlanar(J(w[0]), J(u[0]), J(bias[0]), ns).get_act_scale(), dtype=np.float64), (N, d))
                # structural clauses on u_hat (appendix A.1): only the component along w is changed, and w.u_hat > -1 / (largest slope of the activation)
                wu = (w * u).sum(1)
                wuh = (w * uhat).sum(1)
                diff = uhat - u
                par = diff - (diff * w).sum(1, keepdims=True) * w / np.maximum((w * w).sum(1, keepdims=True), 1e-300)
                ptol = (1e-9 if x64 else 1e-4) * (1 + np.abs(u) + np.abs(diff))
                _state["uhat_ok"] = bool(np.all(np.abs(par) <= ptol) and np.all(wuh[wu > (-30 if x64 else -12)] > -1 / max(1.0, ns or 1.0)))
                a = (w * x).sum(1) + bias
                act = np.tanh(a) if ns is None else np.where(a >= 0, a, ns * a)
                return x + uhat * act[:, None]
            ref.state = ref.__defaults__[0]
            return {"dim": d, "cond_dim": cd, "negative_slope": ns, "seed": seed, "pscale": pscale}, build, ref, (d,), None if cd is None else (cd,), {}, z((d,))
        if kind == "RQS":
            knots = int(rng.integers(1, 9))
            if rng.random() < 0.5:
                B_ = float(rng.choice([0.25, 1, 3, 10]))
                interval, lo, hi = B_, -B_, B_
            else:
                lo = float(rng.choice([-2.0, 0.5, -10.0, 0.0]))
                hi = lo + float(rng.choice([0.5, 3.0, 20.0]))
                interval = (lo, hi)
            md = float(rng.choice([1e-3, 1e-3, 0.1, 0.5]))
            sa = float(rng.choice([1e-2, 1e-2, 0.0, 1.0]))
            def build():
                return B.RationalQuadraticSpline(knots=knots, interval=interval, min_derivative=md, softmax_adjust=sa)
            def ref(x, c, o, _state={}):
                u = o if o is not None else unwrap(_state["obj"])
                xp, yp, dd = (np.asarray(a, dtype=np.float64) for a in (u.x_pos, u.y_pos, u.derivatives))
                return ref_rqs(x, xp, yp, dd, lo, hi)
            ref.state = ref.__defaults__[0]
            return {"knots": knots, "interval": interval, "min_derivative": md, "softmax_adjust": sa}, build, ref, (), None, {"spline_end": [lo, hi]}, z(())
        raise KeyError(kind)

    def check_instance(kind, idx):
        nonlocal rng
        rng = np.random.default_rng([shard["seed"], 7, shard["shard"], idx])  # per-instance stream: replayable
        args, build, ref, shape, cshape, crit, tag = gen_instance(kind)
        rec.count("instances")
        rec.count("kind_" + kind)
        it = {"kind": kind, "args": jsonable(args), "origin": "generated", "index": idx}
        try:
            b0 = build()
        except Exception as e:  # noqa: BLE001
            rec.violation(f"build.{type(e).__name__}", f"{kind}{jsonable(args)}: constructor raised {type(e).__name__}: {str(e)[:200]}", it, ("init", 0.0), {})
            return
        if tuple(b0.shape) != tuple(shape) or b0.cond_shape != cshape:
            rec.violation("shape", f"{kind}: shape {b0.shape}/{b0.cond_shape}, expected {shape}/{cshape} from the constructor arguments", it, ("init", 0.0), {})
            return
        for mode in (("init", 0.0), ("sigma", 0.7)):
            if mode[0] != "init" and kind in ("Exp", "SoftPlus", "Tanh", "Flip", "Identity", "LeakyTanh", "Permute"):
                continue
            sig = 0.3 if kind.startswith("Planar") else mode[1]
            b = b0 if mode[0] == "init" else perturb(b0, sig, 7 + idx, clip=8.0)
            if hasattr(ref, "state"):
                ref.state["obj"] = b
            obj = None
            if mode[0] != "init" and kind in ("Affine", "Loc", "Scale", "TriangularAffine", "AdditiveCondition"):
                u = unwrap(b)
                class O:  # unwrapped fields as float64 NumPy
                    pass
                obj = O()
                for f in ("loc", "scale", "triangular"):
                    if hasattr(u, f):
                        setattr(obj, f, np.asarray(getattr(u, f), dtype=np.float64))
                if kind == "AdditiveCondition":
                    obj.module = u.module
            c2 = dict(crit)
            if kind == "RQS":
                BB.criticals_from_object(b, c2)
            xs, xcrit, xhits = BB.make_points(tag, c2, rng, fdt, n_rand=24, n_crit=30, n_big=6, big=1e6 if x64 else 1e4)
            if kind == "Exp":
                xs = np.clip(xs, -700 if x64 else -80, 700 if x64 else 80)
            cs = None if cshape is None else rng.standard_normal((len(xs), *cshape)).astype(fdt)
            N = len(xs)
            rec.evals += N
            try:
                if cs is None:
                    y = np.asarray(jax.vmap(b.transform)(jnp.asarray(xs)), dtype=np.float64)
                else:
                    y = np.asarray(jax.vmap(b.transform)(jnp.asarray(xs), jnp.asarray(cs)), dtype=np.float64)
            except Exception as e:  # noqa: BLE001
                rec.violation(f"exception.{type(e).__name__}", f"{kind}{jsonable(args)} [{mode}]: transform raised {type(e).__name__}: {str(e)[:200]}", it, mode, {})
                return
            x64v = xs.astype(np.float64)
            yr = ref(x64v, None if cs is None else cs.astype(np.float64), obj)
            for hs in xhits:
                for h in hs:
                    rec.count("input_hit_" + h)
            if y.shape != yr.shape:
                rec.violation("shape.returned", f"{kind}: transform returned shape {y.shape[1:]}, documented function gives {yr.shape[1:]}", it, mode, {})
                return
            if hasattr(ref, "state") and ref.state.get("uhat_ok") is False:
                rec.violation("planar.constraint", f"{kind}{jsonable(args)} [{mode}]: u_hat changes u off the w direction or w.u_hat <= -1", it, mode, {})
            amax = lambda a: np.abs(a.reshape(N, -1)).max(1) if a.size else np.zeros(N)
            tol = rtol * (1 + amax(x64v) + np.where(np.isfinite(amax(yr)), amax(yr), 0))
            if kind == "TriangularAffine":
                tol = tol * (1 + np.abs(args["arr"]).sum(1).max())
            err = amax(np.where(np.isfinite(yr) | np.isfinite(y), y - yr, 0.0))
            both_nonfinite = ~np.isfinite(yr.reshape(N, -1)).all(1)
            err = np.where(both_nonfinite, 0.0, np.where(np.isfinite(err), err, np.inf))
            bad = err > tol
            rec.count("compared", int((~both_nonfinite).sum()))
            rec.maxi("err_over_tol", np.max(np.where(~bad, err / tol, 0)))
            if bad.any():
                i = int(np.where(bad)[0][np.argmax((err / tol)[bad])])
                rec.violation(f"value.{kind}", f"{kind}{str(jsonable(args))[:300]} [{mode}]: transform({xs[i].tolist()}) = {y[i].tolist()} but the documented "
                                               f"function gives {yr[i].tolist()} (diff {err[i]:.3g}, tol {tol[i]:.3g}; {int(bad.sum())} of {N} inputs)",
                              it, mode, {"x": xs[i], "condition": None if cs is None else cs[i], "got": y[i], "reference": yr[i]})
            moved = (~bad) & (~both_nonfinite) & (amax(yr - x64v) > 1e-9)
            rec.count("nontrivial_cases_total", int(moved.sum()))
            base = chash(kind, jsonable(args), list(mode))
            for i in np.where(moved)[0][:: max(1, int(moved.sum()) // 8)][:8]:
                rec.nontrivial.add(chash(base, int(i)))
            if kind in ("Identity",):
                rec.nontrivial.add(chash(base, "identity"))
            if len(rec.samples) < 4 and kind in ("RQS", "Planar", "TriangularAffine", "LeakyTanh") and moved.any():
                i = int(np.where(moved)[0][0])
                rec.samples.append(jsonable({"kind": kind, "args": args, "mode": mode, "x": xs[i], "transform": y[i], "reference": yr[i]}))
            # ---- input representation: a NumPy array (and, for scalar bijections, a python float) holding the same numbers as
            # the jax array gives the same result.  (Integer arrays are *not* part of this clause: bijection methods leave the
            # dtype to JAX's promotion rules - only distributions cast to float - and python lists are rejected by design.)
            if mode[0] != "init" or kind in ("Exp", "SoftPlus", "Tanh", "LeakyTanh", "Flip", "Permute"):
                j0 = int(rng.integers(0, N))
                xi, ci = xs[j0], (None if cs is None else cs[j0])
                try:
                    y0, ld0 = b.transform_and_log_det(jnp.asarray(xi), None if ci is None else jnp.asarray(ci))
                    reps = {"numpy array": (np.array(xi), None if ci is None else np.array(ci))}
                    if shape == () and x64:
                        reps["python float"] = (float(xi), None if ci is None else np.array(ci))
                    for rn, (xr, cr) in reps.items():
                        rec.count("input_representation_checks")
                        y1 = b.transform(xr, cr)
                        y2, ld2 = b.transform_and_log_det(xr, cr)
                        same = (np.array_equal(np.asarray(y1), np.asarray(y0), equal_nan=True) and np.array_equal(np.asarray(y2), np.asarray(y0), equal_nan=True)
                                and np.array_equal(np.asarray(ld2), np.asarray(ld0), equal_nan=True) and y1.dtype == y0.dtype and ld2.dtype == ld0.dtype)
                        if not same:
                            rec.violation("value.input_representation", f"{kind}{str(jsonable(args))[:200]} [{mode}]: transform of the {rn} {np.asarray(xi).tolist()} gives "
                                                                         f"{np.asarray(y1).tolist()} ({y1.dtype}) but of the same numbers as a jax array {np.asarray(y0).tolist()} ({y0.dtype})",
                                          it, mode, {"x": xi, "representation": rn})
                            break
                except Exception as e:  # noqa: BLE001
                    rec.violation(f"exception.{type(e).__name__}", f"{kind}{jsonable(args)} [{mode}]: NumPy / python-scalar inputs raised {type(e).__name__}: {str(e)[:200]}", it, mode, {})
            # ---- spline structural clauses
            if kind == "RQS":
                u = unwrap(b)
                xp, yp = np.asarray(u.x_pos, dtype=np.float64), np.asarray(u.y_pos, dtype=np.float64)
                yk = np.asarray(jax.vmap(b.transform)(jnp.asarray(xp.astype(fdt))), dtype=np.float64)
                rec.count("spline_knot_interpolation_checks", len(xp))
                if not np.all(np.abs(yk - yp) <= (1e-9 if x64 else 1e-4) * (1 + np.abs(yp))):
                    rec.violation("spline.knots", f"RQS{jsonable(args)} [{mode}]: does not pass through its knots: f(x_pos)={yk.tolist()} y_pos={yp.tolist()}", it, mode, {})
                lo, hi = xp[0], xp[-1]
                grid = np.linspace(lo - 0.1 * (hi - lo), hi + 0.1 * (hi - lo), 2001).astype(fdt)
                yg = np.asarray(jax.vmap(b.transform)(jnp.asarray(grid)), dtype=np.float64)
                rec.count("spline_monotonicity_grids")
                if np.any(np.diff(yg) < -(1e-12 if x64 else 1e-5) * (1 + np.abs(yg[1:]))):
                    j = int(np.argmin(np.diff(yg)))
                    rec.violation("spline.monotone", f"RQS{jsonable(args)} [{mode}]: not monotone near x={grid[j]}: {yg[j]} -> {yg[j + 1]}", it, mode, {})
                if mode[0] == "init":
                    rec.count("spline_identity_at_init_checks")
                    if not np.all(np.abs(yg - grid.astype(np.float64)) <= (1e-9 if x64 else 1e-4) * (1 + np.abs(grid))):
                        j = int(np.argmax(np.abs(yg - grid)))
                        rec.violation("spline.identity_at_init", f"RQS{jsonable(args)}: freshly constructed spline is not the identity: f({grid[j]}) = {yg[j]}", it, mode, {})

    only = shard.get("items")
    k = 0
    for kind in KINDS:
        for j in range(shard["per_kind"]):
            if not only or (only[0]["kind"] == kind and only[0]["index"] == k):
                check_instance(kind, k)
            k += 1
    out = rec.result()
    if not shard.get("replay"):
        out["required"] = {"compared": rec.counters.get("compared", 0),
                           "spline_knot_interpolation_checks": rec.counters.get("spline_knot_interpolation_checks", 0),
                           "input_hit_spline_end": rec.counters.get("input_hit_spline_end", 0),
                           "input_hit_leaky_switch_x": rec.counters.get("input_hit_leaky_switch_x", 0)}
    return out
