"""C10 - the bisection inverter finds the root of any increasing function.

Observation at the client boundary of the search: the monitor passes its own bijection-like
object (documented `inverter(bijection, y, condition)` interface) whose `transform` records every
evaluation point through an ordered host callback.  The recorded trace is checked after the run:
bounded progress (logical steps; the callback itself aborts a run that exceeds the bound by a large
factor, so non-termination is a verdict and not a wall-clock guess), accuracy against the root known
by construction, and (recorded only) the bracket invariant.  Finally the real
BlockAutoregressiveNetwork.inverse is driven with targets up to 1e6 away from [-10, 10].
"""
from __future__ import annotations

import math

import numpy as np

PROPERTY = "C10"
LEVEL = "exploration"
RULE = ("function family {steep/flat linear, cubic, sinh, exp-1, saturating with linear tails, kinked piecewise linear} x "
        "roots {inside, on either end, 1 ulp outside, up to 1e6 away on either side} x initial intervals "
        "{symmetric, one-sided, tiny, huge, narrow off-centre} x tol in 1e-2..1e-9 x max_iter in {0,1,5,60,200} x "
        "float64/float32; triangular vector maps dims 1-6 with bounded coupling; real BNAF inverses. A case = one "
        "search run with its complete evaluation trace; non-trivial = the trace has >= 3 evaluations and the root is "
        "not one of the two initial end points; distinct = distinct (family, params, root, interval, tol, max_iter, dtype)")
ASSUMPTIONS = [
    "the root is known by construction: y = g(r) is computed with the same compiled g, so the exact root lies within "
    "res = 4 ulp(r) + 16 eps (|y|+1)/g'(r) of r; errors below res are out of resolution",
    "when max_iter cannot reach tol the accuracy bound is the generic doubling-bracket envelope 4(W0+dist) 2^-(max_iter+1)",
    "a run whose callback count exceeds 20x the logical bound is aborted from inside the callback and reported as non-terminating",
]
ANCHOR_FILES = ["bisection_search.py", "bijections/block_autoregressive_network.py"]
REQUIRED_FUNCS = ["bisection_search.py:_bisection_search", "bisection_search.py:_adapt_interval_to_include_root",
                  "bisection_search.py:_autoregressive_bisection_search",
                  "bisection_search.py:AutoregressiveBisectionInverter.__call__",
                  "bisection_search.py:_adapt_interval_to_include_root.body_fn",
                  "bisection_search.py:_bisection_search.body_fn"]
NEEDS_SHIM = False

FAMILIES = ["lin", "cubic", "sinh", "expm1", "sat", "kink"]
TOLS = [1e-2, 1e-5, 1e-7, 1e-9]
MAX_ITERS = [0, 1, 5, 60, 200]
INTERVALS = [(-10.0, 10.0), (0.0, 1.0), (-1e-3, 1e-3), (-1e4, 2e4), (5.0, 5.5)]


def plan(tier, seed):
    combos = [(f, t, m) for f in FAMILIES for t in TOLS for m in MAX_ITERS]
    nsh = 16
    shards = []
    for x64 in (True, False):
        for i in range(nsh // 2):
            shards.append({"name": f"C10-{'f64' if x64 else 'f32'}-{i}", "x64": x64,
                           "combos": combos[i:: nsh // 2], "nrand": 3 if tier != "thorough" else 40,
                           "nvec": 6 if tier != "thorough" else 60, "nbnaf": 3 if tier != "thorough" else 24,
                           "shard": i, "timeout": 3000})
    return shards


# ---------------------------------------------------------------- function families ------
def g_np(fam, p, x):
    x = np.asarray(x, dtype=np.float64)
    a, b, c = p
    with np.errstate(over="ignore", invalid="ignore"):
        if fam == "lin":
            return a * x
        if fam == "cubic":
            return x**3 + a * x
        if fam == "sinh":
            return a * np.sinh(x)
        if fam == "expm1":
            return a * np.expm1(x)
        if fam == "sat":
            return np.tanh(x) + a * x
        if fam == "kink":
            return np.where(x < c, a * x, b * (x - c) + a * c)
    raise KeyError(fam)


def slope_np(fam, p, r):
    a, b, c = p
    if fam == "lin":
        return a
    if fam == "cubic":
        return 3 * r * r + a
    if fam == "sinh":
        return a * math.cosh(min(abs(r), 700))
    if fam == "expm1":
        return a * math.exp(r)
    if fam == "sat":
        return (1 - math.tanh(r) ** 2) + a
    if fam == "kink":
        if abs(r - c) < 1e-6 * (1 + abs(c)):
            return min(a, b)
        return a if r < c else b
    raise KeyError(fam)


def min_slope(fam, p):
    a, b, c = p
    return {"lin": a, "cubic": a, "sinh": a, "sat": a, "kink": min(a, b)}.get(fam, None)


def fam_params(fam, rng):
    if fam == "lin":
        return [float(rng.choice([1e3, 1e-3, 1.0, 7.3])), 0.0, 0.0]
    if fam == "cubic":
        return [float(rng.choice([0.5, 1.0, 10.0])), 0.0, 0.0]
    if fam == "sinh":
        return [float(rng.choice([1.0, 0.1])), 0.0, 0.0]
    if fam == "expm1":
        return [float(rng.choice([1.0, 3.0])), 0.0, 0.0]
    if fam == "sat":
        return [float(rng.choice([0.01, 0.1])), 0.0, 0.0]
    if fam == "kink":
        return [float(rng.choice([0.1, 2.0])), float(rng.choice([5.0, 0.05])), float(rng.choice([0.3, -7.0, 10.0]))]
    raise KeyError(fam)


def root_limit(fam, x64):
    if fam == "sinh":
        return 300.0 if x64 else 40.0
    if fam == "expm1":
        return 30.0 if x64 else 10.0
    if fam == "cubic":
        return 1e6 if x64 else 1e4
    return 1e6


def roots_for(lo, hi, fam, x64, rng, nrand):
    fdt = np.float64 if x64 else np.float32
    lim = root_limit(fam, x64)
    lo_, hi_ = fdt(lo), fdt(hi)
    W = hi - lo
    cand = [lo, hi, float(np.nextafter(lo_, fdt(-np.inf))), float(np.nextafter(hi_, fdt(np.inf))),
            (lo + hi) / 2, lo + 0.3183 * W, hi - 1e-7 * W, hi + 1e6, lo - 1e6, hi + 123.456, lo - 0.77 * W,
            hi + 3 * W, 0.0]
    for _ in range(nrand):
        cand.append(lo + rng.random() * W)
        s = rng.choice([-1, 1])
        cand.append((hi if s > 0 else lo) + s * 10 ** rng.uniform(-3, 6))
    out = []
    for r in cand:
        r = float(fdt(r))
        if abs(r) <= lim:
            out.append(r)
    return out


def run_shard(shard):
    import equinox as eqx
    import jax
    import jax.numpy as jnp
    import jax.random as jr
    from flowjax.bisection_search import AutoregressiveBisectionInverter

    x64 = shard["x64"]
    fdt = np.float64 if x64 else np.float32
    eps = float(np.finfo(fdt).eps)
    rng = np.random.default_rng([shard["seed"], 10, shard["shard"], int(x64)])

    class Abort(Exception):
        pass

    trace = []
    limit = [10**9]

    def rec(x, y):
        trace.append((np.array(x, dtype=np.float64), np.array(y, dtype=np.float64)))
        if len(trace) > limit[0]:
            raise Abort("evaluation bound exceeded")

    def g_jax(fam, p, x):
        a, b, c = p[0], p[1], p[2]
        if fam == "lin":
            return a * x
        if fam == "cubic":
            return x**3 + a * x
        if fam == "sinh":
            return a * jnp.sinh(x)
        if fam == "expm1":
            return a * jnp.expm1(x)
        if fam == "sat":
            return jnp.tanh(x) + a * x
        if fam == "kink":
            return jnp.where(x < c, a * x, b * (x - c) + a * c)
        raise KeyError(fam)

    class Fn(eqx.Module):
        """Bijection-like object: only `.shape` and `.transform` (the documented interface)."""
        p: jax.Array          # (dim, 3) per-coordinate family parameters
        A: jax.Array          # (dim, dim) strictly lower-triangular coupling
        fams: tuple = eqx.field(static=True)
        shape: tuple = eqx.field(static=True)
        record: bool = eqx.field(static=True, default=True)

        def g(self, x):
            own = jnp.stack([g_jax(f, self.p[i], x[i]) for i, f in enumerate(self.fams)])
            return own + self.A @ jnp.tanh(x)

        def transform(self, x, condition=None):
            y = self.g(x)
            if self.record:
                jax.debug.callback(rec, x, y, ordered=True)
            return y

    class DirectInverter(eqx.Module):
        """Calls the search function itself with the ends of the interval exactly as given (the public inverter class converts its
        bounds; the function is documented for Real arrays, integer-typed ones included)."""
        lower: jax.Array
        upper: jax.Array
        tol: float = eqx.field(static=True)
        max_iter: int = eqx.field(static=True)

        def __call__(self, bijection, y, condition=None):
            from flowjax.bisection_search import _autoregressive_bisection_search

            return _autoregressive_bisection_search(autoregressive_fn=lambda x: bijection.transform(x, condition) - y, lower=self.lower, upper=self.upper,
                                                    tol=self.tol, length=bijection.shape[0], max_iter=self.max_iter)

    def make_inverter(lo, hi, key, tol, max_iter):
        a, b_ = bound_repr(lo, key), bound_repr(hi, key)
        if isinstance(a, jax.Array) and jnp.issubdtype(a.dtype, jnp.integer):
            counters["direct_function_calls_with_integer_bounds"] = counters.get("direct_function_calls_with_integer_bounds", 0) + 1
            return DirectInverter(a, b_, tol, max_iter)
        return AutoregressiveBisectionInverter(lower=a, upper=b_, tol=tol, max_iter=max_iter)

    @eqx.filter_jit
    def solve(inv, fn, y):
        return inv(fn, y, None)

    @eqx.filter_jit
    def forward(fn, x):
        return fn.g(x)

    counters = {"scalar_runs": 0, "vector_runs": 0, "bnaf_runs": 0, "evaluation_events": 0,
                "runs_with_interval_adaptation_up": 0, "runs_with_interval_adaptation_down": 0,
                "runs_root_on_end": 0, "runs_exit_via_max_iter": 0, "bracket_invariant_breaks_recorded": 0,
                "runs_root_1e6_away": 0, "max_trace_len": 0, "bnaf_gated_ill_conditioned": 0}
    maxima = {"scalar_err_over_bound": 0.0, "vector_err_over_bound": 0.0, "bnaf_err_over_tol": 0.0,
              "evals_over_step_bound": 0.0}
    violations, samples = [], []
    cases, nontrivial = set(), set()

    def violation(mech, msg, case):
        violations.append({"mechanism": mech, "summary": msg, "case": case,
                           "replay": dict(shard, only=case, name="replay")})

    def step_bound(W0, dist, max_iter, dim=1):
        n_adapt = math.ceil(math.log2(1 + dist / W0)) + 3 if dist > 0 else 3
        return dim * (2 + 2 * n_adapt + max_iter + 2)

    def bracket_breaks(tr, coord):
        """Recorded only: an evaluation outside the tightest bracket already established."""
        lo, hi, n = -np.inf, np.inf, 0
        have = False
        for x, y in tr:
            xv, fv = x[coord], y[coord]
            if have and not (lo <= xv <= hi):
                n += 1
            if fv <= 0:
                lo = max(lo, xv)
            if fv >= 0:
                hi = min(hi, xv)
            have = np.isfinite(lo) and np.isfinite(hi)
        return n

    def bound_repr(v, key):
        """How an end of the initial interval is handed to the constructor: integer-valued ends also as a python int or an
        integer array (the interval is the same set of reals; the annotation is Real[Array, ''])."""
        if float(v).is_integer() and abs(v) < 2**31:
            import zlib

            k = zlib.crc32(repr(key).encode()) % 4
            if k == 1:
                counters["bounds_given_as_python_int"] = counters.get("bounds_given_as_python_int", 0) + 1
                return int(v)
            if k == 2:
                counters["bounds_given_as_int_array"] = counters.get("bounds_given_as_int_array", 0) + 1
                return jnp.asarray(int(v))
        return fdt(v)

    def scalar_case(fam, p, r, lo, hi, tol, max_iter):
        case = {"kind": "scalar", "fam": fam, "p": p, "root": r, "lower": lo, "upper": hi, "tol": tol,
                "max_iter": max_iter, "x64": x64}
        key = ("s", fam, tuple(p), r, lo, hi, tol, max_iter, x64)
        if key in cases:
            return
        cases.add(key)
        fn = Fn(jnp.asarray([p], dtype=fdt), jnp.zeros((1, 1), dtype=fdt), (fam,), (1,))
        y = forward(fn, jnp.asarray([r], dtype=fdt))
        yv = float(y[0])
        if not np.isfinite(yv):
            cases.discard(key)
            return
        inv = make_inverter(lo, hi, key, tol, max_iter)
        W0 = hi - lo
        dist = max(0.0, lo - r, r - hi)
        bound = step_bound(W0, dist, max_iter)
        del trace[:]
        limit[0] = 20 * bound + 50
        try:
            xhat = float(solve(inv, fn, y)[0])
            jax.effects_barrier()
        except Exception as e:  # noqa: BLE001
            jax.effects_barrier() if False else None
            if "evaluation bound exceeded" in str(e) or isinstance(e, Abort):
                violation("nontermination", f"search made more than {limit[0]} evaluations (logical bound {bound}); {case}",
                          dict(case, evaluations=len(trace), first_points=[float(t[0][0]) for t in trace[:20]]))
            else:
                violation("exception", f"{type(e).__name__}: {str(e)[:200]}; {case}", case)
            counters["scalar_runs"] += 1
            return
        counters["scalar_runs"] += 1
        n = len(trace)
        counters["evaluation_events"] += n
        counters["max_trace_len"] = max(counters["max_trace_len"], n)
        if dist > 0:
            counters["runs_with_interval_adaptation_up" if r > hi else "runs_with_interval_adaptation_down"] += 1
        if dist >= 1e5:
            counters["runs_root_1e6_away"] += 1
        if r == lo or r == hi:
            counters["runs_root_on_end"] += 1
        slope = slope_np(fam, p, r)
        ulp = float(np.spacing(fdt(abs(r)))) if r != 0 else float(np.finfo(fdt).tiny)
        res = 4 * ulp + 16 * eps * (abs(yv) + 1.0) / slope
        Wb = 4 * (W0 + dist)
        reach = Wb * 2.0 ** -(max_iter + 1)
        if reach > tol:
            counters["runs_exit_via_max_iter"] += 1
        ebound = max(tol, reach) + res
        err = abs(xhat - r)
        maxima["scalar_err_over_bound"] = max(maxima["scalar_err_over_bound"], err / ebound)
        maxima["evals_over_step_bound"] = max(maxima["evals_over_step_bound"], n / bound)
        nb = bracket_breaks(trace, 0)
        counters["bracket_invariant_breaks_recorded"] += nb
        if n >= 3 and r not in (lo, hi):
            nontrivial.add(key)
        detail = dict(case, returned=xhat, error=err, bound=ebound, res=res, evaluations=n, step_bound=bound,
                      trace_x=[float(t[0][0]) for t in trace[:60]])
        if not np.isfinite(xhat):
            violation("nonfinite", f"search returned {xhat}; {case}", detail)
        elif err > ebound:
            violation("accuracy", f"returned {xhat!r}, root {r!r}: error {err:.3g} > bound {ebound:.3g} "
                                  f"(tol {tol}, res {res:.3g}, {n} evaluations); {case}", detail)
        elif n > bound:
            violation("progress", f"{n} evaluations exceed the logical step bound {bound}; {case}", detail)
        if len(samples) < 3 and dist > 0 and n > 10 and max_iter == 200:
            samples.append(detail)

    def vector_case(dim, fams, P, A, r, lo, hi, tol, max_iter):
        case = {"kind": "vector", "dim": dim, "fams": list(fams), "P": P, "A": A, "root": r, "lower": lo, "upper": hi,
                "tol": tol, "max_iter": max_iter, "x64": x64}
        key = ("v", dim, tuple(fams), str(P), str(A), str(r), lo, hi, tol, max_iter, x64)
        cases.add(key)
        fn = Fn(jnp.asarray(P, dtype=fdt), jnp.asarray(A, dtype=fdt), tuple(fams), (dim,))
        rj = jnp.asarray(r, dtype=fdt)
        y = forward(fn, rj)
        inv = make_inverter(lo, hi, key, tol, max_iter)
        W0 = hi - lo
        rr = np.asarray(rj, dtype=np.float64)
        dists = np.maximum(0, np.maximum(lo - rr, rr - hi))
        # coupling shifts the effective per-coordinate root by at most sum|a|/slope: add to the distance
        bound = sum(step_bound(W0, float(d) + 10.0, max_iter) for d in dists)
        del trace[:]
        limit[0] = 20 * bound + 50
        try:
            xhat = np.asarray(solve(inv, fn, y), dtype=np.float64)
            jax.effects_barrier()
        except Exception as e:  # noqa: BLE001
            mech = "nontermination" if "evaluation bound exceeded" in str(e) else "exception"
            violation(mech, f"{type(e).__name__}: {str(e)[:160]}; {case}", case)
            counters["vector_runs"] += 1
            return
        counters["vector_runs"] += 1
        n = len(trace)
        counters["evaluation_events"] += n
        yv = np.asarray(y, dtype=np.float64)
        E = np.zeros(dim)
        An = np.asarray(A, dtype=np.float64)
        for i in range(dim):
            slope_min = min_slope(fams[i], P[i])
            ulp = float(np.spacing(fdt(abs(rr[i])))) if rr[i] != 0 else float(np.finfo(fdt).tiny)
            res = 4 * ulp + 16 * eps * (abs(yv[i]) + 1.0 + np.abs(An[i]).sum()) / slope_np(fams[i], P[i], rr[i])
            Wb = 4 * (W0 + dists[i] + 10.0)
            E[i] = max(tol, Wb * 2.0 ** -(max_iter + 1)) + res + float(np.abs(An[i, :i]) @ E[:i]) / slope_min
        err = np.abs(xhat - rr)
        ratio = float(np.max(err / E))
        maxima["vector_err_over_bound"] = max(maxima["vector_err_over_bound"], ratio)
        maxima["evals_over_step_bound"] = max(maxima["evals_over_step_bound"], n / bound)
        if dim >= 2 and n >= 3 * dim:
            nontrivial.add(key)
        detail = dict(case, returned=xhat.tolist(), error=err.tolist(), bound=E.tolist(), evaluations=n, step_bound=bound)
        if not np.all(np.isfinite(xhat)):
            violation("nonfinite", f"vector search returned {xhat.tolist()}; dim={dim}", detail)
        elif ratio > 1:
            violation("accuracy.vector", f"coordinate errors {err.tolist()} exceed propagated bounds {E.tolist()}; "
                                         f"dim={dim} tol={tol} max_iter={max_iter}", detail)
        elif n > bound:
            violation("progress", f"{n} evaluations exceed the logical step bound {bound}; dim={dim}", detail)
        if len(samples) < 4 and dim >= 3:
            samples.append({k: detail[k] for k in ("kind", "dim", "fams", "root", "returned", "bound", "evaluations", "tol")})

    def bnaf_case(seed, dim, depth, block_dim, sigma, xmag):
        from flowjax.bijections import BlockAutoregressiveNetwork
        from fjmon.common import perturb

        case = {"kind": "bnaf", "seed": seed, "dim": dim, "depth": depth, "block_dim": block_dim, "sigma": sigma,
                "xmag": xmag, "x64": x64}
        key = ("b", seed, dim, depth, block_dim, sigma, xmag, x64)
        cases.add(key)
        b = BlockAutoregressiveNetwork(jr.PRNGKey(seed), dim=dim, depth=depth, block_dim=block_dim)
        b = perturb(b, sigma, seed + 1)
        r2 = np.random.default_rng(seed)
        x0 = jnp.asarray(r2.normal(size=dim) * xmag, dtype=fdt)

        @eqx.filter_jit
        def roundtrip(b, x0):
            y = b.transform(x0)
            return y, b.inverse(y), jax.jacfwd(b.transform)(x0)

        y, xr, J = (np.asarray(a, dtype=np.float64) for a in roundtrip(b, x0))
        counters["bnaf_runs"] += 1
        x0n = np.asarray(x0, dtype=np.float64)
        if not (np.all(np.isfinite(J)) and np.all(np.isfinite(y))):
            counters["bnaf_gated_ill_conditioned"] += 1
            return
        d = np.diag(J)
        if np.any(d <= 0):
            counters["bnaf_gated_ill_conditioned"] += 1
            return
        L = np.tril(J, -1)
        prop = np.abs(np.linalg.inv(np.eye(dim) - np.abs(L / d[:, None]))).sum(1).max()
        Ji = np.linalg.inv(J)
        nJ, nJi = np.abs(J).sum(1).max(), np.abs(Ji).sum(1).max()
        nx, ny = np.abs(x0n).max(), np.abs(y).max()
        tolx = 1e-7 * prop * 10 + 4 * float(np.spacing(fdt(nx))) * prop + 1e4 * eps * (nJi * (1 + ny + nJ * nx) + 1 + nx)
        if tolx > (1e-3 if x64 else 1e-2) * (1 + nx):
            counters["bnaf_gated_ill_conditioned"] += 1
            return
        err = float(np.abs(xr - x0n).max())
        maxima["bnaf_err_over_tol"] = max(maxima["bnaf_err_over_tol"], err / tolx)
        nontrivial.add(key)
        if not np.all(np.isfinite(xr)) or err > tolx:
            violation("bnaf.inverse", f"BNAF inverse error {err:.3g} > {tolx:.3g} for a target {xmag:g} away; {case}",
                      dict(case, x0=x0n.tolist(), returned=xr.tolist(), tol=tolx))

    only = shard.get("only")
    if only is not None:
        if only["kind"] == "scalar":
            scalar_case(only["fam"], only["p"], only["root"], only["lower"], only["upper"], only["tol"], only["max_iter"])
        elif only["kind"] == "vector":
            vector_case(only["dim"], only["fams"], only["P"], only["A"], only["root"], only["lower"], only["upper"],
                        only["tol"], only["max_iter"])
        else:
            bnaf_case(only["seed"], only["dim"], only["depth"], only["block_dim"], only["sigma"], only["xmag"])
    else:
        for fam, tol, max_iter in shard["combos"]:
            p = fam_params(fam, rng)
            for lo, hi in INTERVALS:
                for r in roots_for(lo, hi, fam, x64, rng, shard["nrand"]):
                    scalar_case(fam, p, r, lo, hi, tol, max_iter)
        vec_fams = ["lin", "sinh", "kink", "sat", "cubic"]
        for k in range(shard["nvec"]):
            dim = int(rng.integers(1, 7))
            fams = [str(rng.choice(vec_fams)) for _ in range(dim)]
            P = [fam_params(f, rng) for f in fams]
            for i, f in enumerate(fams):
                if f == "lin":
                    P[i][0] = float(rng.choice([1.0, 7.3, 0.2]))
            A = (np.tril(rng.uniform(-1, 1, (dim, dim)), -1) * float(rng.choice([0.0, 0.5, 3.0]))).tolist()
            lo, hi = INTERVALS[int(rng.integers(0, len(INTERVALS)))]
            mag = float(rng.choice([1.0, 30.0, 1e3])) if x64 else float(rng.choice([1.0, 30.0]))
            r = (rng.normal(size=dim) * mag).tolist()
            r = [float(np.clip(v, -30, 30)) if fams[i] in ("sinh",) else float(v) for i, v in enumerate(r)]
            tol = float(rng.choice([1e-3, 1e-5, 1e-7]))
            max_iter = int(rng.choice([200, 200, 60]))
            vector_case(dim, fams, P, A, r, lo, hi, tol, max_iter)
        for k in range(shard["nbnaf"]):
            from fjmon import env
            if not env.shim_ok():
                break
            bnaf_case(int(rng.integers(0, 10**6)), int(rng.integers(1, 5)), int(rng.integers(0, 3)),
                      int(rng.integers(1, 4)), float(rng.choice([0.0, 0.3, 0.6])),
                      float(rng.choice([1.0, 100.0, 1e4, 1e6])) if x64 else float(rng.choice([1.0, 100.0])))

    req = {"evaluation_events": counters["evaluation_events"]}
    if only is None:
        req.update({k: counters[k] for k in ("runs_with_interval_adaptation_up", "runs_with_interval_adaptation_down",
                                             "runs_root_on_end", "runs_exit_via_max_iter", "vector_runs", "bnaf_runs")})
    return {"evaluations": len(cases), "nontrivial": len(nontrivial), "samples": samples, "counters": counters,
            "maxima": maxima, "violations": violations, "required": req}
