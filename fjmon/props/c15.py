"""C15 - fit_to_data never loses, duplicates or misaligns data.

Observation at the public loss_fn boundary: rows are tagged with their index, the model's only
parameter is a counter, the optimiser adds 1 per update, so every loss call records
(parameter version, x tags, condition tags, key words) through an ordered host callback.
icontract contracts on the real train_val_split / get_batches (also as called from inside
fit_to_data) check partition / pairing / leading-rows semantics.  An offline trace checker then
decides the statement's clauses on the recorded history.
"""
from __future__ import annotations

import json
import os
import shutil
import subprocess
import sys
import tempfile

import numpy as np

PROPERTY = "C15"
LEVEL = "exploration"
RULE = ("configurations (n in 2..60, batch_size in 1..n+5, val_prop on a grid keeping both parts non-empty, "
        "with/without condition, 1-4 epochs, root key) sampled with a seeded RNG, plus an exhaustive sweep of "
        "direct train_val_split/get_batches calls; a case = one fit_to_data run (its whole loss-call history) or one "
        "direct helper call; non-trivial = the run has >=2 training batches in some epoch or a skipped remainder or "
        ">=2 epochs (so ordering/duplication/leak clauses are not vacuous); distinct = distinct configuration tuples")
ASSUMPTIONS = [
    "rows are identified by tags carried in the data itself; the loss, model and optimiser are harness objects "
    "passed through the documented arguments; the loop is the unmodified working-tree code",
    "split size is accepted if |n_val - val_prop*n| < 1 (any rounding convention)",
    "ordered jax.debug.callback delivers events in program order (probed on this jax)",
]
ANCHOR_FILES = ["train/data_fit.py", "train/train_utils.py"]
REQUIRED_FUNCS = ["train/data_fit.py:fit_to_data", "train/train_utils.py:train_val_split",
                  "train/train_utils.py:get_batches", "train/train_utils.py:_add_batch", "train/train_utils.py:step"]


def plan(tier, seed):
    nsh = 16
    ncfg = 24 if tier != "thorough" else 400
    return [{"name": f"C15-{i}", "shard": i, "nshards": nsh, "ncfg": ncfg, "x64": True, "timeout": 3000}
            for i in range(nsh)]


class ContractBroken(Exception):
    pass


def gen_config(rng):
    n = int(rng.integers(2, 61))
    # val_prop grid keeping both parts non-empty under any rounding: 1 <= val_prop*n <= n-1
    while True:
        vp = float(rng.choice([0.05, 0.1, 0.2, 0.25, 1 / 3, 0.5, 0.6, 0.75, 0.9]))
        if 1.0 <= vp * n <= n - 1.0:
            break
        if n == 2:
            vp = 0.5
            break
    bs = int(rng.integers(1, n + 6))
    if rng.random() < 0.3:  # bias towards batch sizes that leave remainders / several batches
        bs = int(rng.integers(1, max(2, n // 2)))
    return {"n": n, "val_prop": vp, "batch_size": bs, "with_condition": bool(rng.random() < 0.6),
            "epochs": int(rng.integers(1, 5)), "key": int(rng.integers(0, 2**31 - 1))}


def check_history(cfg, events, final_counter, split, root_key_words):
    """Offline checker. events: list of dict(counter, xt, x2, ct, c2, key). Returns [(mechanism, msg)]."""
    bad = []
    n, bs, vp, E = cfg["n"], cfg["batch_size"], cfg["val_prop"], cfg["epochs"]
    wc = cfg["with_condition"]
    # ---- row integrity and pairing on every event
    for i, ev in enumerate(events):
        xt = np.asarray(ev["xt"])
        if not np.array_equal(np.asarray(ev["x2"]), 3 * xt + 0.5):
            bad.append(("row.torn", f"event {i}: x row columns no longer belong together"))
        if wc:
            ct = np.asarray(ev["ct"])
            if ct.shape != xt.shape or not np.array_equal(ct, xt + 1000):
                bad.append(("pairing", f"event {i}: x tags {xt.tolist()} paired with condition tags {ct.tolist()}"))
            elif not np.array_equal(np.asarray(ev["c2"]), -xt):
                bad.append(("row.torn", f"event {i}: condition row columns no longer belong together"))
        if np.any(xt < 0) or np.any(xt >= n) or np.any(xt != np.round(xt)):
            bad.append(("foreign.row", f"event {i}: tags {xt.tolist()} are not rows of the dataset"))
    if bad:
        return bad
    # ---- gradient-step events: the parameter version seen by the successor is larger
    counters = [ev["counter"] for ev in events] + [final_counter]
    is_step = [counters[i + 1] > counters[i] for i in range(len(events))]
    # ---- epochs: (train)+ (val)+
    epochs = []
    i = 0
    while i < len(events):
        tr = []
        while i < len(events) and is_step[i]:
            tr.append(events[i]); i += 1
        va = []
        while i < len(events) and not is_step[i]:
            va.append(events[i]); i += 1
        epochs.append((tr, va))
    if len(epochs) != E:
        bad.append(("epochs", f"history parses into {len(epochs)} epochs (train+ val+), requested {E}"))
        return bad
    if split is not None:
        T, V = set(split["train"]), set(split["val"])
    else:
        T = set(int(t) for tr, _ in epochs for ev in tr for t in ev["xt"])
        V = set(int(t) for _, va in epochs for ev in va for t in ev["xt"])
    if T & V or (split is not None and (T | V) != set(range(n))):
        bad.append(("partition", f"train/validation sets do not partition the data: overlap {sorted(T & V)}, "
                                 f"missing {sorted(set(range(n)) - (T | V))}"))
    n_val_candidates = [k for k in range(1, n) if abs(k - vp * n) < 1]
    if split is not None:
        n_val_candidates = [k for k in n_val_candidates if k == len(V)]
        if not n_val_candidates:
            bad.append(("split.size", f"n_val={len(V)} is not within 1 of val_prop*n={vp * n:.3f}"))
            return bad
    ok_any = False
    why = []
    for n_val in n_val_candidates:
        n_train = n - n_val
        tb, vb = min(bs, n_train), min(bs, n_val)
        reasons = []
        for e, (tr, va) in enumerate(epochs):
            if len(tr) != n_train // tb:
                reasons.append(f"epoch {e}: {len(tr)} training batches, expected {n_train // tb} "
                               f"(n_train={n_train}, batch={tb}: only a trailing remainder < batch may be skipped)")
            if len(va) != n_val // vb:
                reasons.append(f"epoch {e}: {len(va)} validation batches, expected {n_val // vb}")
            for ev in tr:
                if len(ev["xt"]) != tb:
                    reasons.append(f"epoch {e}: training batch of {len(ev['xt'])} rows, expected {tb}")
            for ev in va:
                if len(ev["xt"]) != vb:
                    reasons.append(f"epoch {e}: validation batch of {len(ev['xt'])} rows, expected {vb}")
        if not reasons:
            ok_any = True
            break
        why.append((n_val, reasons[:2]))
    if not ok_any:
        bad.append(("batching", f"no split size consistent with the history: {why[:2]}"))
    for e, (tr, va) in enumerate(epochs):
        tt = [int(t) for ev in tr for t in ev["xt"]]
        if len(set(tt)) != len(tt):
            bad.append(("duplicate.row", f"epoch {e}: a training row is used more than once: {sorted(tt)}"))
        vt = [int(t) for ev in va for t in ev["xt"]]
        if len(set(vt)) != len(vt):
            bad.append(("duplicate.row", f"epoch {e}: a validation row is used more than once: {sorted(vt)}"))
        leak = set(tt) & V
        if leak or not set(tt) <= T:
            bad.append(("val.leak", f"epoch {e}: rows {sorted(leak or set(tt) - T)} of the validation part took part in a gradient step"))
        if not set(vt) <= V:
            bad.append(("partition", f"epoch {e}: validation loss evaluated on training rows {sorted(set(vt) - V)}"))
    # ---- keys
    keys = [tuple(int(w) for w in ev["key"]) for ev in events]
    if len(set(keys)) != len(keys):
        bad.append(("key.reuse", f"{len(keys) - len(set(keys))} loss calls received a key already used in this run"))
    if tuple(root_key_words) in set(keys):
        bad.append(("key.reuse", "a loss call received the root key itself"))
    return bad


def run_shard(shard):
    import equinox as eqx
    import icontract
    import jax
    import jax.numpy as jnp
    import jax.random as jr
    import optax
    import flowjax.train.data_fit as data_fit
    import flowjax.train.train_utils as tu

    counters = {"fit_runs": 0, "loss_call_events": 0, "gradient_step_events": 0, "validation_events": 0,
                "contract_evals_train_val_split": 0, "contract_evals_get_batches": 0,
                "direct_helper_calls": 0, "runs_with_skipped_remainder": 0, "runs_with_multi_batch_epochs": 0,
                "determinism_pairs": 0, "different_key_changes_order": 0, "rows_observed": 0,
                "cross_process_pairs": 0, "cross_process_child_failures": 0}
    violations, samples = [], []
    cases, nontrivial = set(), set()
    split_log = []

    # ------------------------------------------------------------------ contracts --------
    def split_partitions(key, arrays, val_prop, result):
        counters["contract_evals_train_val_split"] += 1
        train, val = result
        a0 = np.asarray(arrays[0])
        tags_tr, tags_va = np.asarray(train[0])[:, 0], np.asarray(val[0])[:, 0]
        allt = np.concatenate([tags_tr, tags_va])
        ok = sorted(allt.tolist()) == sorted(a0[:, 0].tolist())
        for a, tr, va in zip(arrays, train, val):
            both = np.concatenate([np.asarray(tr), np.asarray(va)])
            src = np.asarray(a)
            # the output rows are exactly the input rows (whole rows, each once)
            ok = ok and both.shape == src.shape and np.array_equal(
                both[np.argsort(both[:, 0], kind="stable")], src[np.argsort(src[:, 0], kind="stable")])
        # same permutation for all arrays: tag offset between arrays is constant by construction
        if len(arrays) > 1:
            d = np.concatenate([np.asarray(train[1]), np.asarray(val[1])])[:, 0] - allt
            ok = ok and np.all(d == d[0]) and d[0] == (np.asarray(arrays[1])[0, 0] - a0[0, 0])
        n = a0.shape[0]
        ok = ok and abs(len(tags_va) - val_prop * n) < 1
        split_log.append({"train": [int(t) for t in tags_tr], "val": [int(t) for t in tags_va]})
        return bool(ok)

    def batches_are_leading_rows(arrays, batch_size, result):
        counters["contract_evals_get_batches"] += 1
        ok = len(result) == len(arrays)
        for a, r in zip(arrays, result):
            a, r = np.asarray(a), np.asarray(r)
            b = min(batch_size, a.shape[0])
            nb = a.shape[0] // b
            ok = ok and r.shape == (nb, b, *a.shape[1:]) and np.array_equal(r.reshape(nb * b, *a.shape[1:]), a[: nb * b])
        return bool(ok)

    orig_split, orig_batches = tu.train_val_split, tu.get_batches
    split_c = icontract.ensure(split_partitions, error=lambda: ContractBroken("train_val_split"))(
        lambda key, arrays, val_prop=0.1: orig_split(key, arrays, val_prop=val_prop))
    batch_c = icontract.ensure(batches_are_leading_rows, error=lambda: ContractBroken("get_batches"))(
        lambda arrays, batch_size: orig_batches(arrays, batch_size))
    data_fit.train_val_split = split_c
    data_fit.get_batches = batch_c

    # ------------------------------------------------------------------ observation ------
    events = []

    def rec(counter, x, c, k):
        x, c = np.asarray(x), np.asarray(c)
        events.append({"counter": float(counter), "xt": x[:, 0].tolist(), "x2": x[:, 1].tolist(),
                       "ct": c[:, 0].tolist() if c.size else [], "c2": c[:, 1].tolist() if c.size else [],
                       "key": np.asarray(k).ravel().tolist()})

    class Model(eqx.Module):
        counter: jax.Array

    def counting_opt():
        return optax.GradientTransformation(
            lambda p: (), lambda g, s, params=None: (jax.tree_util.tree_map(jnp.ones_like, g), s))

    @eqx.filter_jit
    def loss(params, static, x, condition=None, key=None):
        m = eqx.combine(params, static)
        kd = jr.key_data(key) if jnp.issubdtype(key.dtype, jax.dtypes.prng_key) else key
        c = condition if condition is not None else jnp.zeros((0, 2))
        jax.debug.callback(rec, jax.lax.stop_gradient(m.counter), x, c, kd, ordered=True)
        return 0.0 * m.counter + 1.0

    opt = counting_opt()

    def do_run(cfg):
        n = cfg["n"]
        i = np.arange(n, dtype=float)
        x = jnp.asarray(np.stack([i, 3 * i + 0.5], 1))
        c = jnp.asarray(np.stack([1000 + i, -i], 1)) if cfg["with_condition"] else None
        del events[:]
        del split_log[:]
        key = jr.PRNGKey(cfg["key"])
        out, losses = data_fit.fit_to_data(key, Model(jnp.array(0.0)), x, condition=c, loss_fn=loss,
                                           max_epochs=cfg["epochs"], max_patience=1000, batch_size=cfg["batch_size"],
                                           val_prop=cfg["val_prop"], optimizer=opt, return_best=False,
                                           show_progress=False)
        jax.effects_barrier()
        return list(events), float(out.counter), (split_log[-1] if split_log else None), \
            np.asarray(jr.key_data(key) if jnp.issubdtype(key.dtype, jax.dtypes.prng_key) else key).ravel().tolist(), losses

    def violation(mech, msg, cfg, extra=None):
        violations.append({"mechanism": mech, "summary": f"{msg}; config={cfg}", "case": dict(cfg, detail=extra),
                           "replay": dict(shard, only=cfg, name="replay")})

    def one_config(cfg):
        key = tuple(sorted(cfg.items()))
        cases.add(key)
        try:
            ev, fin, split, root, losses = do_run(cfg)
        except ContractBroken as e:
            violation(f"contract.{e}", f"contract on {e} violated inside fit_to_data", cfg)
            return
        except icontract.ViolationError as e:  # pragma: no cover
            violation("contract", str(e)[:300], cfg)
            return
        counters["fit_runs"] += 1
        counters["loss_call_events"] += len(ev)
        counters["rows_observed"] += sum(len(e["xt"]) for e in ev)
        if split is None:
            violation("observability", "train_val_split was not called through the monitored name", cfg)
        bad = check_history(cfg, ev, fin, split, root)
        cn = [e["counter"] for e in ev] + [fin]
        nstep = sum(cn[i + 1] > cn[i] for i in range(len(ev)))
        counters["gradient_step_events"] += nstep
        counters["validation_events"] += len(ev) - nstep
        if len(losses["train"]) != cfg["epochs"] or len(losses["val"]) != cfg["epochs"]:
            bad.append(("epochs", f"{len(losses['train'])}/{len(losses['val'])} losses recorded for {cfg['epochs']} epochs"))
        for mech, msg in bad[:3]:
            violation(mech, msg, cfg, {"events": ev[:12], "final_counter": fin, "split": split})
        if split is not None:
            n_train = len(split["train"])
            tb = min(cfg["batch_size"], n_train)
            if n_train % tb:
                counters["runs_with_skipped_remainder"] += 1
            if n_train // tb >= 2:
                counters["runs_with_multi_batch_epochs"] += 1
            if n_train % tb or n_train // tb >= 2 or cfg["epochs"] >= 2:
                nontrivial.add(key)
        # determinism: same key, same history
        if (hash(key) % 4 == 0) or shard.get("replay"):
            ev2, fin2, split2, _, _ = do_run(cfg)
            counters["determinism_pairs"] += 1
            if ev2 != ev or fin2 != fin or split2 != split:
                violation("nondeterministic", "two runs with the same key differ", cfg)
            cfg3 = dict(cfg, key=cfg["key"] + 1)
            ev3, _, split3, _, _ = do_run(cfg3)
            if [e["xt"] for e in ev3] != [e["xt"] for e in ev]:
                counters["different_key_changes_order"] += 1  # recorded only, not a criterion
        if len(samples) < 2 and len(ev) >= 4:
            samples.append({"config": cfg, "split": split, "final_counter": fin,
                            "history": [{k: e[k] for k in ("counter", "xt", "ct", "key")} for e in ev[:8]]})

    def direct_calls(rng, count):
        """Exhaustive-ish sweep of the helpers themselves under their contracts."""
        for _ in range(count):
            n = int(rng.integers(2, 61))
            vp = float(rng.choice([0.0, 0.05, 0.1, 0.25, 1 / 3, 0.5, 0.75, 0.9, 1.0]))
            bs = int(rng.integers(1, n + 6))
            i = np.arange(n, dtype=float)
            arrs = [jnp.asarray(np.stack([i, 3 * i + 0.5], 1)), jnp.asarray(np.stack([1000 + i, -i], 1))]
            cfg = {"direct": True, "n": n, "val_prop": vp, "batch_size": bs, "key": int(rng.integers(0, 2**31 - 1))}
            cases.add(tuple(sorted(cfg.items())))
            nontrivial.add(tuple(sorted(cfg.items())))
            counters["direct_helper_calls"] += 1
            try:
                tr, va = split_c(jr.PRNGKey(cfg["key"]), arrs, val_prop=vp)
                batch_c(tuple(tr), bs) if tr[0].shape[0] else None
                batch_c(tuple(arrs), bs)
            except ContractBroken as e:
                violations.append({"mechanism": f"contract.{e}", "summary": f"direct call contract on {e} violated; {cfg}",
                                   "case": cfg, "replay": dict(shard, only=cfg, name="replay")})

    def digest(ev, fin, split):
        import hashlib
        blob = json.dumps([[(e["counter"], e["xt"], e["ct"], e["key"]) for e in ev], fin, split], sort_keys=True)
        return hashlib.sha1(blob.encode()).hexdigest()

    if shard.get("xproc_child") is not None:
        # child of the cross-process clause: run one configuration in this (differently salted) interpreter
        ev, fin, split, _, _ = do_run(shard["xproc_child"])
        return {"evaluations": 0, "nontrivial": 0, "samples": [], "counters": {}, "violations": [], "required": {},
                "notes": {"digest": digest(ev, fin, split), "first_rows": ev[0]["xt"] if ev else [],
                          "hashseed": os.environ.get("PYTHONHASHSEED")}}

    def cross_process(cfg):
        """'The same key reproduces the same run' across interpreter sessions: the configuration is run in two fresh
        interpreters with different str-hash salts (PYTHONHASHSEED 1 / 2; this worker runs under 0); the recorded
        histories (rows, conditions, keys, parameter versions per loss call, split) must be identical."""
        ev, fin, split, _, _ = do_run(cfg)
        mine = digest(ev, fin, split)
        outs = []
        wd = tempfile.mkdtemp(dir=os.path.join(os.path.dirname(os.path.dirname(os.path.dirname(os.path.abspath(__file__)))), ".work"))
        try:
            for hs in ("1", "2"):
                sp, op = os.path.join(wd, f"s{hs}.json"), os.path.join(wd, f"o{hs}.json")
                json.dump({"name": "xproc", "x64": shard.get("x64", True), "reach": False, "xproc_child": cfg,
                           "seed": shard.get("seed", 0), "shard": 0}, open(sp, "w"))
                env = dict(os.environ, PYTHONHASHSEED=hs)
                try:
                    subprocess.run([sys.executable, "-m", "fjmon.worker", "C15", sp, op], env=env, timeout=900,
                                   capture_output=True, cwd=os.path.dirname(os.path.dirname(os.path.dirname(os.path.abspath(__file__)))))
                    r = json.load(open(op))
                except Exception as e:  # noqa: BLE001
                    r = {"harness_error": repr(e)}
                if "harness_error" in r:
                    counters["cross_process_child_failures"] += 1
                    continue
                outs.append((hs, r["notes"]["digest"], r["notes"]["first_rows"]))
        finally:
            shutil.rmtree(wd, ignore_errors=True)
        if len(outs) == 2:
            counters["cross_process_pairs"] += 1
            cases.add(("xproc",) + tuple(sorted(cfg.items())))
            nontrivial.add(("xproc",) + tuple(sorted(cfg.items())))
            ds = {mine} | {d for _, d, _ in outs}
            if len(ds) != 1:
                violation("nondeterministic.across_processes",
                          f"the same key gives different runs in different interpreter sessions (PYTHONHASHSEED 0/1/2): "
                          f"first batch rows {ev[0]['xt'] if ev else []} vs {[o[2] for o in outs]}", cfg)

    only = shard.get("only")
    if only is not None and only.get("xproc"):
        cfg = {k: only[k] for k in ("n", "val_prop", "batch_size", "with_condition", "epochs", "key")}
        cross_process(cfg)
    elif only is not None:
        if only.get("direct"):
            rng = np.random.default_rng(0)
            n, vp, bs = only["n"], only["val_prop"], only["batch_size"]
            i = np.arange(n, dtype=float)
            arrs = [jnp.asarray(np.stack([i, 3 * i + 0.5], 1)), jnp.asarray(np.stack([1000 + i, -i], 1))]
            try:
                tr, va = split_c(jr.PRNGKey(only["key"]), arrs, val_prop=vp)
                batch_c(tuple(tr), bs)
                batch_c(tuple(arrs), bs)
            except ContractBroken as e:
                violations.append({"mechanism": f"contract.{e}", "summary": f"direct call contract on {e} violated",
                                   "case": only, "replay": dict(shard)})
            cases.add(("replay",))
        else:
            cfg = {k: only[k] for k in ("n", "val_prop", "batch_size", "with_condition", "epochs", "key")}
            one_config(cfg)
    else:
        rng = np.random.default_rng([shard["seed"], 15, shard["shard"]])
        for _ in range(shard["ncfg"]):
            one_config(gen_config(rng))
        direct_calls(rng, 40 if shard.get("tier") != "thorough" else 400)
        if shard["shard"] < (2 if shard.get("tier") != "thorough" else 8):
            cfg = gen_config(rng)
            cfg.update(n=max(cfg["n"], 12), epochs=max(cfg["epochs"], 2))
            cfg["batch_size"] = min(cfg["batch_size"], 4)
            cross_process(dict(cfg, xproc=True))

    return {"evaluations": len(cases), "nontrivial": len(nontrivial), "samples": samples, "counters": counters,
            "violations": violations,
            "required": {k: counters[k] for k in ("loss_call_events", "gradient_step_events", "validation_events",
                                                  "contract_evals_train_val_split", "contract_evals_get_batches",
                                                  "runs_with_skipped_remainder", "runs_with_multi_batch_epochs",
                                                  "determinism_pairs")
                         + (("cross_process_pairs",) if (only is None and shard["shard"] < 2) else ())}}
