"""C14 - methods are pure and transparent to jit, vmap and serialisation.

Monitor: the eager execution of the same public call is the oracle.  For every structure (bijections, distributions,
flows) every method is (1) jitted as a bound method with eqx.filter_jit (the model is an argument of the trace, as in
fit_to_data) and as a function of the model, (2) vmapped over inputs and compared with a Python loop, (3) called
twice (bit equality), (4) called through the *same* jitted function with a second model of identical structure but
different parameters (a stale constant would return the first model's result), (5) executed after pytree
flatten/unflatten and after equinox leaf serialisation into a freshly constructed model (bit equality)."""
from __future__ import annotations

import io

import numpy as np

from fjmon import specs as S

PROPERTY = "C14"
LEVEL = "exploration"
NEEDS_SHIM = True
RULE = ("structures = leaf catalogue + combinator catalogue (every Partial index kind) + flow factories + seeded random trees, and "
        "Transformed distributions over them + named families; methods = 4 bijection methods / log_prob, sample, sample_and_log_prob; "
        "per (structure, method): jit-as-bound-method vs eager, jit-with-model-argument vs eager, vmap vs loop, repeat, second model "
        "through the same compiled function, flatten/unflatten, serialise -> deserialise into a model built from another key. A case = "
        "(structure, method, clause); non-trivial = the method's output differs from its input (bijections) / is finite (distributions); "
        "distinct = distinct (structure hash, method, clause)")
ASSUMPTIONS = [
    "jit-vs-eager tolerance 1e3 eps x finite-difference sensitivity + 1e-10 relative (XLA may fuse differently); paths through the "
    "bisection search add 1e-5 x sensitivity + 1e-6 (a different fusion can flip sign(f(mid)) next to the root)",
    "repeat / flatten / serialisation clauses demand bit equality",
]
ANCHOR_FILES = ["bijections/bijection.py", "distributions.py", "wrappers.py", "bijections/utils.py", "bijections/jax_transforms.py",
                "bijections/masked_autoregressive.py", "bijections/rational_quadratic_spline.py", "bisection_search.py"]
REQUIRED_FUNCS = ["bijections/bijection.py:_unwrap_check_and_cast.wrapper", "distributions.py:AbstractDistribution.log_prob",
                  "distributions.py:AbstractDistribution.sample", "bijections/utils.py:Partial.transform", "bijections/utils.py:_bool_to_int_idxs",
                  "bijections/jax_transforms.py:Scan.transform", "bijections/jax_transforms.py:Vmap.transform",
                  "bijections/masked_autoregressive.py:MaskedAutoregressive.inverse", "bijections/rational_quadratic_spline.py:RationalQuadraticSpline.inverse",
                  "bisection_search.py:_bisection_search"]
METHODS = ["transform", "transform_and_log_det", "inverse", "inverse_and_log_det"]


def plan(tier, seed):
    from fjmon import flowgen

    items = []
    for i, sp in enumerate(S.leaf_catalogue()):
        items.append({"kind": "spec", "spec": sp, "bseed": 100 + i, "origin": "leaf"})
    for i, sp in enumerate(S.combinator_catalogue()):
        items.append({"kind": "spec", "spec": sp, "bseed": 400 + i, "origin": "combinator"})
    for i, c in enumerate(flowgen.flow_cases(dims=(2,))):
        items.append({"kind": "flow", "case": c, "bseed": 700 + i, "origin": "flow"})
    # structures in which a float32 carry / slice meets a numerically inverted block (precision-sensitive after serialisation)
    for i, sp in enumerate([
            {"op": "Scan", "n": 3, "child": {"op": "Concatenate", "axis": -1, "args": [
                {"op": "MAF", "dim": 4, "cond_dim": 5, "transformer": {"op": "Affine", "shape": ()}, "nn_width": 4, "nn_depth": 0},
                {"op": "BNAF", "dim": 1, "cond_dim": None, "depth": 1, "block_dim": 3}]}},
            {"op": "Scan", "n": 2, "child": {"op": "Concatenate", "axis": 0, "args": [
                {"op": "Affine", "shape": (2,)}, {"op": "BNAF", "dim": 2, "cond_dim": None, "depth": 0, "block_dim": 2}]}}]):
        items.append({"kind": "spec", "spec": sp, "bseed": 900 + i, "origin": "combinator"})
    rng = np.random.default_rng([seed, 14])
    gen = S.Gen(rng)
    for i in range(24 if tier != "thorough" else 600):
        items.append({"kind": "spec", "spec": gen.random_spec(), "bseed": int(rng.integers(0, 2**31 - 1)), "origin": "random"})
    nsh = 16
    groups = [[] for _ in range(nsh)]
    loads = [0.0] * nsh
    from fjmon.bijcheck import _cost

    for it in sorted(items, key=lambda it: -_cost(it)):
        j = int(np.argmin(loads))
        groups[j].append(it)
        loads[j] += _cost(it)
    return [{"name": f"C14-{i}", "shard": i, "items": g, "dists": i, "x64": True, "timeout": 3400} for i, g in enumerate(groups)]


def _with_tseed(s, t):
    s = dict(s)
    if s["op"] in ("Coupling", "MAF"):
        s["tseed"] = t
    if "args" in s:
        s["args"] = [_with_tseed(a, t) for a in s["args"]]
    if "child" in s:
        s["child"] = _with_tseed(s["child"], t)
    return s


def run_shard(shard):
    import equinox as eqx
    import jax
    import jax.numpy as jnp
    import jax.random as jr
    import flowjax.bijections as B
    import flowjax.distributions as D
    from fjmon import env, flowgen
    from fjmon.bijcheck import Recorder
    from fjmon.common import chash, jsonable, perturb

    rec = Recorder(shard, "C14")
    rng = np.random.default_rng([shard["seed"], 14, shard.get("shard", 0)])
    eps = 2.220446049250313e-16

    def flat(o):
        return [np.asarray(a, dtype=np.float64) for a in (o if isinstance(o, tuple) else (o,))]

    def bits_equal(a, b):
        fa, fb = flat(a), flat(b)
        return len(fa) == len(fb) and all(x.shape == y.shape and x.tobytes() == y.tobytes() for x, y in zip(fa, fb))

    def close(a, b, sens, xmag, numeric):
        """jit-vs-eager closeness with sensitivity-scaled tolerance -> (ok, err, tol)"""
        worst, wt = 0.0, 1.0
        for x, y in zip(flat(a), flat(b)):
            if x.shape != y.shape:
                return False, np.inf, 0.0
            both_nonfinite = ~np.isfinite(x) & ~np.isfinite(y)
            err = np.max(np.where(both_nonfinite, 0.0, np.abs(np.where(np.isfinite(x) | np.isfinite(y), x - y, 0.0)))) if x.size else 0.0
            if np.any(np.isfinite(x) != np.isfinite(y)):
                err = np.inf
            tol = 1e3 * eps * (1 + sens) * (1 + xmag) + 1e-10 * (1 + (np.max(np.abs(y[np.isfinite(y)])) if np.isfinite(y).any() else 0))
            if numeric:
                tol += 1e-5 * (1 + sens) + 1e-6
            if err / tol > worst / wt:
                worst, wt = err, tol
        return worst <= wt, worst, wt

    def check_callable(it, name, label, model, model2, fresh, call, arg_sets, numeric, nontrivial_test, bound=None):
        """call(m, *args) -> output.  arg_sets: list of argument tuples (arrays)."""
        base = chash(it.get("spec") or it.get("case") or name, it.get("bseed"), label)

        def viol(mech, msg, extra=None):
            rec.violation(mech, f"{name}.{label}: {msg}", it, ("init", 0.0), extra or {})

        a0 = arg_sets[0]
        rec.evals += 6  # six clauses per (structure, method)
        try:
            e0 = call(model, *a0)
        except NotImplementedError:
            rec.count("not_implemented_skipped")
            return
        except Exception as e:  # noqa: BLE001
            viol(f"eager.{type(e).__name__}", f"eager call raised {type(e).__name__}: {str(e)[:200]}")
            return
        # ---- (0) the same call with NumPy arrays (what a user holding data in NumPy passes; tracing converts them, the eager
        # path must too): same bits, jax arrays out
        if all(a is None or isinstance(a, jax.Array) for a in a0) and any(a is not None and jnp.issubdtype(a.dtype, jnp.floating) for a in a0):
            try:
                en = call(model, *[None if a is None else np.asarray(a) for a in a0])
                rec.count("numpy_input_eager_calls")
                if not bits_equal(en, e0):
                    viol("eager.numpy_input", "the eager call with NumPy array arguments returns different bits / dtypes than with the same values as jax arrays")
                elif not all(isinstance(l, jax.Array) for l in jax.tree_util.tree_leaves(en)):
                    viol("eager.numpy_input", f"the eager call with NumPy array arguments returns {[type(l).__name__ for l in jax.tree_util.tree_leaves(en)]} instead of jax arrays")
            except Exception as e:  # noqa: BLE001
                viol(f"eager.numpy_input.{type(e).__name__}", f"eager call with NumPy array arguments raised {type(e).__name__}: {str(e)[:200]}")
        jf = eqx.filter_jit(call)
        # ---- (1) jit with the model as an argument; bound-method jit
        try:
            j0 = jf(model, *a0)
            pert = tuple((a * (1 + 1e-11) + 1e-13) if (hasattr(a, "dtype") and jnp.issubdtype(a.dtype, jnp.floating)) else a for a in a0)
            j0p = jf(model, *pert)
        except Exception as e:  # noqa: BLE001
            viol(f"jit.{type(e).__name__}", f"failed under eqx.filter_jit with the model as an argument: {type(e).__name__}: {str(e)[:250]}")
            return
        xmag = max([float(np.max(np.abs(np.asarray(a, dtype=np.float64)))) if (hasattr(a, "dtype") and jnp.issubdtype(a.dtype, jnp.floating) and np.asarray(a).size) else 0.0 for a in a0] + [0.0])
        dx = 1e-11 * xmag + 1e-13
        sens = max([float(np.max(np.abs(np.where(np.isfinite(p - q), p - q, 0.0)))) / dx if p.size else 0.0 for p, q in zip(flat(j0p), flat(j0))] + [0.0])
        ok, err, tol = close(j0, e0, sens, xmag, numeric)
        rec.count("jit_vs_eager_comparisons")
        gated = tol > 1e-4 * (1 + xmag)
        if gated:
            rec.count("gated_ill_conditioned")
        elif not ok:
            viol("jit.value", f"eqx.filter_jit result differs from the eager result by {err:.3g} (tol {tol:.3g})", {"args": [np.asarray(a) for a in a0]})
        else:
            rec.maxi("jit_err_over_tol", err / tol)
        # ---- (1b) the FAQ's advice: eqx.filter_jit(obj.method) - the bound method itself, same oracle and tolerance
        if bound is not None:
            try:
                jb = eqx.filter_jit(bound)(*a0)
                rec.count("bound_method_jit_calls")
                okb, errb, tolb = close(jb, e0, sens, xmag, numeric)
                if not gated and not okb:
                    viol("jit.bound_method", f"eqx.filter_jit(bound method) differs from the eager result by {errb:.3g} (tol {tolb:.3g})")
            except Exception as e:  # noqa: BLE001
                viol(f"jit.bound.{type(e).__name__}", f"eqx.filter_jit(bound method) raised {type(e).__name__}: {str(e)[:250]}")
        # ---- (3) repeat: bit equality
        j0b = jf(model, *a0)
        rec.count("repeat_comparisons")
        if not bits_equal(j0, j0b):
            viol("repeat", "two identical jitted calls returned different bits")
        # ---- (4) second model through the same compiled function (stale constants)
        if model2 is not None:
            try:
                j2 = jf(model2, *a0)
                e2 = call(model2, *a0)
                rec.count("second_model_comparisons")
                ok2, err2, tol2 = close(j2, e2, sens, xmag, numeric)
                if not gated and not ok2:
                    same_as_first = bits_equal(j2, j0)
                    viol("stale_constant" if same_as_first else "jit.value.second_model",
                         f"the compiled function called with a second model of identical structure returned {'the FIRST model`s result' if same_as_first else 'a wrong result'} "
                         f"(diff to eager {err2:.3g}, tol {tol2:.3g})")
            except Exception as e:  # noqa: BLE001
                viol(f"jit.second.{type(e).__name__}", f"second model through the same jitted function raised {type(e).__name__}: {str(e)[:200]}")
        # ---- (2) vmap vs loop
        if len(arg_sets) >= 3:
            try:
                stacked = tuple(jnp.stack([a[k] for a in arg_sets]) if arg_sets[0][k] is not None else None for k in range(len(a0)))
                in_axes = tuple(0 if s is not None else None for s in stacked)
                vm = jax.vmap(lambda *args: call(model, *args), in_axes=in_axes)(*stacked)
                loop = [call(model, *a) for a in arg_sets]
                rec.count("vmap_vs_loop_comparisons")
                for i_, lo in enumerate(loop):
                    vi = tuple(np.asarray(o)[i_] for o in (vm if isinstance(vm, tuple) else (vm,)))
                    okv, errv, tolv = close(vi if len(vi) > 1 else vi[0], lo, sens, xmag, numeric)
                    if not gated and not okv:
                        viol("vmap.value", f"jax.vmap result for element {i_} differs from the looped call by {errv:.3g} (tol {tolv:.3g})")
                        break
            except NotImplementedError:
                pass
            except Exception as e:  # noqa: BLE001
                viol(f"vmap.{type(e).__name__}", f"failed under jax.vmap: {type(e).__name__}: {str(e)[:250]}")
        # ---- (5) flatten / unflatten and serialisation: bit-identical behaviour
        try:
            leaves, td = jax.tree_util.tree_flatten(model)
            m2 = jax.tree_util.tree_unflatten(td, leaves)
            rec.count("flatten_roundtrips")
            if not bits_equal(jf(m2, *a0), j0):
                viol("flatten", "flatten/unflatten changed the result")
            if fresh is not None:
                buf = io.BytesIO()
                eqx.tree_serialise_leaves(buf, model)
                buf.seek(0)
                loaded = eqx.tree_deserialise_leaves(buf, fresh)
                rec.count("serialisation_roundtrips")
                if not bits_equal(jf(loaded, *a0), j0):
                    viol("serialisation", "tree_serialise_leaves -> tree_deserialise_leaves into a freshly built model changed the result")
                # ... also for inputs narrower than the default float type (single precision data under x64): a restored model must
                # promote exactly as the original does (weakly typed parameter leaves would not survive the round trip)
                if any(a is not None and hasattr(a, "dtype") and a.dtype == jnp.float64 for a in a0):
                    a32 = tuple(a.astype(jnp.float32) if (a is not None and hasattr(a, "dtype") and a.dtype == jnp.float64) else a for a in a0)
                    try:
                        try:
                            r_orig = call(model, *a32)
                        except Exception:  # noqa: BLE001 - e.g. a Scan whose float64 parameters meet a float32 carry: JAX rejects the mix loudly
                            rec.count("narrow_input_rejected_by_the_original_model")
                            raise NotImplementedError
                        r_load, r_flat = call(loaded, *a32), call(m2, *a32)
                        rec.count("serialisation_narrow_input_comparisons")
                        if not (bits_equal(r_orig, r_load) and bits_equal(r_orig, r_flat)):
                            dts = lambda r: [str(l.dtype) for l in jax.tree_util.tree_leaves(r)]
                            viol("serialisation.narrow_input", f"with float32 arguments the restored / re-flattened model returns {dts(r_load)} / {dts(r_flat)} values that differ "
                                                               f"in bits or dtype from the original model's {dts(r_orig)}")
                    except NotImplementedError:
                        pass
        except Exception as e:  # noqa: BLE001
            viol(f"serialisation.{type(e).__name__}", f"flatten/serialisation raised {type(e).__name__}: {str(e)[:200]}")
        if nontrivial_test(e0, a0):
            for cl in ("jit", "repeat", "second", "vmap", "serialise"):
                rec.nontrivial.add(chash(base, cl))

    # ------------------------------------------------------------------ bijections --------
    for it in shard["items"]:
        if it.get("origin") == "boundary":  # replay of the closure-of-codomain clause (below)
            continue
        try:
            if it["kind"] == "spec":
                sp = it["spec"]
                b = S.build(sp, jr.PRNGKey(it["bseed"]))
                fresh = S.build(sp, jr.PRNGKey(it["bseed"] + 12345))
                name = sp["op"]
                inv_ok, fwd_ok = S.invertible(sp), S.forward_ok(sp)
                dtag, ctag = S.tags(sp)
                fn_, in_ = S.numeric(sp)
                planar = "Planar" in S.ops_in(sp)
            else:
                c = it["case"]
                flow = flowgen.build_flow(c, jr.PRNGKey(it["bseed"]))
                b = flow.bijection
                fresh = flowgen.build_flow(c, jr.PRNGKey(it["bseed"] + 12345)).bijection
                name = flowgen.case_name(c)
                ok_ = flowgen.flow_invertible(c)
                fwd_ok, inv_ok = ok_ or not c["invert"], ok_ or c["invert"]
                dtag = ctag = np.zeros((c["dim"],), int)
                fn_, in_ = flowgen.flow_numeric(c)
                planar = c["factory"] == "planar_flow"
        except Exception as e:  # noqa: BLE001
            if not env.shim_ok():
                continue
            rec.violation(f"build.{type(e).__name__}", f"constructor raised {type(e).__name__}: {str(e)[:200]}", it, ("init", 0.0), {})
            continue
        rec.count("structures")
        for o in (S.ops_in(it["spec"]) if it["kind"] == "spec" else ["flow:" + it["case"]["factory"]]):
            rec.count("op_" + o)
        b2 = perturb(b, 0.25 if planar else 0.4, it["bseed"] + 5, clip=6.0)
        if it["kind"] == "spec" and (S.ops_in(it["spec"]) & {"Coupling", "MAF"}):
            # a second model of identical structure whose *static* parts (the conditioner's transformer constructor closure,
            # built from another initial transformer) carry different values: a compile cache keyed too coarsely returns stale results
            b2 = S.build(_with_tseed(it["spec"], 99), jr.PRNGKey(it["bseed"] + 777))
        shape, cshape = tuple(b.shape), (None if b.cond_shape is None else tuple(b.cond_shape))

        def pts(tag, n):
            out = []
            for _ in range(n):
                x = rng.standard_normal(shape)
                x = np.where(tag == S.POS, np.exp(0.5 * x), np.where(tag == S.UNIT, np.tanh(x), x))
                cnd = None if cshape is None else jnp.asarray(rng.standard_normal(cshape))
                out.append((jnp.asarray(x), cnd))
            return out

        for m in METHODS:
            if (m.startswith("transform") and not fwd_ok) or (m.startswith("inverse") and not inv_ok):
                continue
            numeric = fn_ if m.startswith("transform") else in_
            nargs = 3 if (it["origin"] in ("leaf", "combinator") and not numeric) else 1
            args = pts(dtag if m.startswith("transform") else ctag, nargs)
            call = (lambda mm, x, c, _m=m: getattr(mm, _m)(x, c))
            check_callable(it, name, m, b, b2, fresh, call, args, numeric,
                           lambda e0, a0: bool(np.max(np.abs(flat(e0)[0] - np.asarray(a0[0]))) > 1e-9) if np.all(np.isfinite(flat(e0)[0])) else False,
                           bound=getattr(b, m))
        if len(rec.samples) < 2 and it["origin"] == "random":
            rec.samples.append(jsonable({"structure": it.get("spec"), "clauses": ["jit(model arg) vs eager", "jit(bound method)", "repeat bits", "second model via same jit",
                                                                                 "vmap vs loop", "flatten", "serialise->fresh model"]}))

    # ------------------------------------------------------------------ closure-of-codomain inputs ------
    # what a single-precision round trip produces (tanh(x) == 1.0 exactly for |x| > 9, exp(x) == 0.0 for x < -104): the eager call,
    # the jitted call and the vmapped call must have the same outcome - all return (the same +-inf / nan pattern and the same
    # finite values) or all raise; a check that only runs on concrete values makes the eager path differ from the traced one
    if (shard.get("shard", 0) == 0 and not shard.get("replay")) or any(i_.get("origin") == "boundary" for i_ in shard.get("items", [])):
        aff = B.Affine(jnp.asarray([0.2, -0.4, 1.0]), jnp.asarray([1.5, 0.5, 2.0]))
        zoo_b = {
            "Tanh": (B.Tanh((3,)), [1.0, -1.0, 0.5]), "Chain[Affine, Tanh]": (B.Chain([aff, B.Tanh((3,))]), [-1.0, 0.25, 1.0]),
            "Invert(Invert(Tanh))": (B.Invert(B.Invert(B.Tanh((3,)))), [1.0, 0.0, -1.0]),
            "Exp": (B.Exp((3,)), [0.0, 1.0, 2.0]), "SoftPlus": (B.SoftPlus((3,)), [0.0, 0.5, 3.0]),
            "Chain[Affine, Exp]": (B.Chain([aff, B.Exp((3,))]), [1.0, 0.0, 0.0]),
            "LeakyTanh(2)": (B.LeakyTanh(2.0, (3,)), [1.0, -1.0, float(np.tanh(2.0))]),
        }

        def outcome(f, *a):
            try:
                out = f(*a)
                return "returns", [np.asarray(l, dtype=np.float64) for l in jax.tree_util.tree_leaves(out)]
            except Exception as e:  # noqa: BLE001
                return "raises " + type(e).__name__, None

        for nm, (bj, yv) in zoo_b.items():
            for m in ("inverse", "inverse_and_log_det"):
                it_b = {"origin": "boundary", "case": nm, "method": m}
                y = jnp.asarray(yv)
                rec.evals += 1
                rec.count("boundary_outcome_comparisons")
                rec.nontrivial.add(chash("boundary", nm, m))
                oe = outcome(lambda mm, v: getattr(mm, m)(v), bj, y)
                oj = outcome(eqx.filter_jit(lambda mm, v: getattr(mm, m)(v)), bj, y)
                ov = outcome(lambda mm, v: jax.vmap(getattr(mm, m))(v), bj, jnp.stack([y, y]))
                if not (oe[0] == oj[0] == ov[0]):
                    rec.violation("outcome.differs", f"{nm}.{m}({yv}): eager {oe[0]}, eqx.filter_jit {oj[0]}, jax.vmap {ov[0]}", it_b, ("init", 0.0), {})
                    continue
                if oe[1] is not None:
                    for le, lj, lv in zip(oe[1], oj[1], ov[1]):
                        same = (np.array_equal(np.isnan(le), np.isnan(lj)) and np.array_equal(np.isposinf(le), np.isposinf(lj))
                                and np.array_equal(np.isneginf(le), np.isneginf(lj)))
                        fin = np.isfinite(le) & np.isfinite(lj)
                        same = same and np.allclose(le[fin], lj[fin], rtol=1e-9, atol=1e-12) and np.allclose(lv[0][..., fin] if lv.ndim > le.ndim else lv[0], le[fin] if lv.ndim > le.ndim else le, rtol=1e-9, atol=1e-12, equal_nan=True)
                        if not same:
                            rec.violation("outcome.values_differ", f"{nm}.{m}({yv}): eager {le.tolist()} vs jit {lj.tolist()} vs vmap row {lv[0].tolist()}", it_b, ("init", 0.0), {})
                            break

    # ------------------------------------------------------------------ distributions ------
    if not shard.get("replay"):
        key = jr.PRNGKey(int(rng.integers(0, 2**31 - 1)))
        from flowjax.flows import coupling_flow, masked_autoregressive_flow, planar_flow, triangular_spline_flow, block_neural_autoregressive_flow

        def zoo(k):
            ks = jr.split(k, 8)
            Z = {
                "Normal": lambda kk: D.Normal(jr.normal(kk, (3,)), jnp.exp(jr.normal(kk, (3,)))), "StudentT": lambda kk: D.StudentT(jnp.exp(jr.normal(kk, (2,))) + 1),
                "LogNormal": lambda kk: D.LogNormal(jr.normal(kk, (2,)), jnp.ones(2)), "Uniform": lambda kk: D.Uniform(jr.normal(kk, (2,)), jr.normal(kk, (2,)) + 3.0),
                "MVN": lambda kk: D.MultivariateNormal(jr.normal(kk, (3,)), jnp.eye(3) + 0.1), "Gumbel": lambda kk: D.Gumbel(jr.normal(kk, (2,)), jnp.ones(2)),
                "Mixture": lambda kk: D.VmapMixture(eqx.filter_vmap(D.Normal)(jr.normal(kk, (3, 2)), jnp.ones((3, 2))), jnp.exp(jr.normal(kk, (3,)))),
                "coupling_flow": lambda kk: coupling_flow(kk, base_dist=D.StandardNormal((3,)), flow_layers=2, nn_width=4, cond_dim=2),
                "maf_rqs": lambda kk: masked_autoregressive_flow(kk, base_dist=D.Normal(jnp.zeros(2), jnp.ones(2)), flow_layers=2, nn_width=4, transformer=B.RationalQuadraticSpline(knots=3, interval=3)),
                "planar_flow": lambda kk: planar_flow(kk, base_dist=D.StandardNormal((2,)), flow_layers=2, negative_slope=0.2),
                # parameters handed over as python scalars
                "Normal(python floats)": lambda kk: D.Normal(0.5, 2.0), "Exponential(python float)": lambda kk: D.Exponential(2.0),
                "Transformed(Normal, Affine(python floats))": lambda kk: D.Transformed(D.Normal(0.0, 1.0), B.Chain([B.Affine(0.5, 2.0), B.Scale(3.0), B.Loc(-1.0)])),
                "Transformed(Partial bool)": lambda kk: D.Transformed(D.StandardNormal((4,)), B.Partial(B.Affine(jr.normal(kk, (2,)), jnp.ones(2) * 2), jnp.array([True, False, True, False]), (4,))),
            }
            if env.shim_ok():
                Z["triangular_spline_flow"] = lambda kk: triangular_spline_flow(kk, base_dist=D.StandardNormal((2,)), flow_layers=2, knots=3)
                Z["bnaf_flow"] = lambda kk: block_neural_autoregressive_flow(kk, base_dist=D.StandardNormal((2,)), flow_layers=1, nn_block_dim=2)
            return Z

        Z = zoo(key)
        names = list(Z)[shard["dists"] % 4:: 4]
        for nm in names:
            it = {"dist": nm, "origin": "dist", "bseed": 0}
            k1, k2 = jr.split(jr.fold_in(key, int(chash(nm), 16) % 1000))
            try:
                d, fresh = Z[nm](k1), Z[nm](k2)
            except Exception as e:  # noqa: BLE001
                rec.violation(f"build.{type(e).__name__}", f"constructing {nm} raised {type(e).__name__}: {str(e)[:250]}", it, ("init", 0.0), {})
                continue
            d2 = perturb(d, 0.3, 77, clip=6.0)
            cs = d.cond_shape
            mk_c = lambda: None if cs is None else jnp.asarray(rng.standard_normal(cs))
            rec.count("distributions")
            xs = [(jnp.asarray(np.asarray(d.sample(jr.fold_in(k1, i), (), mk_c()))), mk_c()) for i in range(3)]
            numeric_lp = nm == "bnaf_flow" and False
            check_callable(it, nm, "log_prob", d, d2, fresh, lambda mm, x, c: mm.log_prob(x, c), xs, numeric_lp, lambda e0, a0: bool(np.all(np.isfinite(flat(e0)[0]))))
            ks = [(jr.fold_in(k2, i), mk_c()) for i in range(3)]
            numeric_s = nm == "bnaf_flow"
            check_callable(it, nm, "sample", d, d2, fresh, lambda mm, kk, c: mm.sample(kk, (), c), ks, numeric_s, lambda e0, a0: bool(np.all(np.isfinite(flat(e0)[0]))))
            # purity: the result depends on the key argument (two keys giving bit-identical continuous samples = hidden state / ignored key)
            sa, sb = np.asarray(d.sample(ks[0][0], (), ks[0][1])), np.asarray(d.sample(ks[1][0], (), ks[0][1]))
            rec.count("different_key_comparisons")
            if sa.size and sa.tobytes() == sb.tobytes():
                rec.violation("sample.ignores_key", f"{nm}.sample returned bit-identical samples for two different keys (hidden state or ignored argument)", it, ("init", 0.0), {})
            check_callable(it, nm, "sample_and_log_prob", d, d2, fresh, lambda mm, kk, c: mm.sample_and_log_prob(kk, (2,), c), ks[:1], numeric_s,
                           lambda e0, a0: bool(np.all(np.isfinite(flat(e0)[0]))))
    out = rec.result()
    if not shard.get("replay"):
        out["required"] = {k: rec.counters.get(k, 0) for k in ("jit_vs_eager_comparisons", "repeat_comparisons", "second_model_comparisons", "serialisation_roundtrips",
                                                               "bound_method_jit_calls")}
    return out
