"""C12 - unwrapping applies every wrapper exactly once; frozen parameters never move.

Monitors: (a) an icontract post-condition on the real `flowjax.wrappers.unwrap` (rebound in every module that
imported it by name) - no wrapper node left, idempotent bit-for-bit - evaluated on every concrete call made by all
workloads of this check; (b) an independent recursive NumPy evaluator for BijectionReparam / Where /
WeightNormalization / Lambda / NonTrainable nestings (a wrapper applied zero or two times changes the value);
(c) vmapped construction (0-2 levels) vs the stack of individually constructed wrappers; (d) method results with
and without unwrapping first; (e) exact-zero gradients on NonTrainable leaves; (f) frozen leaves are not
parameterised by conditioners; (g) byte comparison of frozen / non-floating leaves before and after real training
runs with adam, adamw (weight decay), sgd+momentum and a +1-everywhere optimiser."""
from __future__ import annotations

import numpy as np

PROPERTY = "C12"
LEVEL = "exploration"
NEEDS_SHIM = True
RULE = ("random wrapper nestings (depth <= 3: reparameterisation inside masking inside weight-norm, Lambda(x+1) counters, wrappers inside "
        "tuples/lists/dicts/modules, a harness-defined unwrappable) built plainly and under 1-2 filter_vmap levels; bijections / "
        "distributions / flows called wrapped and pre-unwrapped; models with random subsets of leaves or subtrees frozen trained 1-5 "
        "steps/epochs by both loops with 4 optimisers. A case = (nesting | model, construction mode | frozen subset x optimiser x loop); "
        "non-trivial = the nesting contains >= 2 wrappers or the model has both frozen and trainable floating leaves; distinct = hashed")
ASSUMPTIONS = [
    "the unwrap contract is evaluated on concrete (non-traced) calls only; traced calls are counted separately",
    "reference evaluator tolerance 1e-12 relative (same elementary functions in NumPy float64)",
    "frozen / non-floating leaves are compared byte for byte",
]
ANCHOR_FILES = ["wrappers.py", "bijections/bijection.py", "distributions.py", "utils.py", "train/data_fit.py", "train/variational_fit.py", "train/losses.py"]
REQUIRED_FUNCS = ["wrappers.py:unwrap", "wrappers.py:AbstractUnwrappable.recursive_unwrap", "wrappers.py:AbstractUnwrappable.recursive_unwrap.vectorized_unwrap",
                  "wrappers.py:NonTrainable.unwrap", "wrappers.py:non_trainable", "wrappers.py:BijectionReparam.unwrap", "wrappers.py:Where.unwrap",
                  "wrappers.py:WeightNormalization.unwrap", "wrappers.py:Lambda.unwrap", "utils.py:get_ravelled_pytree_constructor",
                  "train/data_fit.py:fit_to_data", "train/variational_fit.py:fit_to_variational_target", "train/losses.py:MaximumLikelihoodLoss.__call__"]


def plan(tier, seed):
    nsh = 16
    shards = [{"name": f"C12-{i}", "shard": i, "nshards": nsh, "nest": 20 if tier != "thorough" else 200, "train": 4 if tier != "thorough" else 40,
               "x64": True, "timeout": 3400} for i in range(nsh)]
    if tier == "thorough":
        # the repository's own test-suite as an extra workload under the unwrap contract and the returned-shape contracts
        shards.append({"name": "C12-suite-under-contracts", "shard": 99, "nshards": nsh, "pytest": True, "x64": False, "reach": False, "timeout": 3400})
    return shards


def run_suite_under_contracts(shard):
    """Thorough tier: run the repository's tests with the contracts installed (pytest plugin fjmon.pytest_contracts).  A test that
    passes in the baseline and fails here *with a contract error* is a violation; the contract counters go to the evidence."""
    import json
    import os
    import subprocess
    import sys
    import tempfile
    import xml.etree.ElementTree as ET
    from fjmon import env

    work = tempfile.mkdtemp(prefix="c12suite", dir=os.path.join(env.VERIF_DIR, ".work"))
    junit, cout = os.path.join(work, "j.xml"), os.path.join(work, "c.json")
    e = dict(os.environ, PYTHONPATH=env.VERIF_DIR + os.pathsep + env.REPO, FJMON_CONTRACT_OUT=cout, VERIF_REPO=env.REPO)
    tests = os.path.join("/repo", "tests")
    subprocess.run([sys.executable, "-m", "pytest", "-q", "-p", "no:cacheprovider", "-p", "fjmon.pytest_contracts", "--timeout=900",
                    "--continue-on-collection-errors", f"--junitxml={junit}", "--rootdir", work, tests], cwd=work, env=e,
                   stdout=subprocess.DEVNULL, stderr=subprocess.DEVNULL, timeout=3000)
    counters = json.load(open(cout)) if os.path.exists(cout) else {}
    violations, ntests = [], 0
    if os.path.exists(junit):
        for tc in ET.parse(junit).getroot().iter("testcase"):
            ntests += 1
            for ch in tc:
                if ch.tag in ("failure", "error"):
                    txt = (ch.get("message") or "") + (ch.text or "")
                    if "UnwrapContractBroken" in txt or "ShapeContractBroken" in txt:
                        which = "unwrap.contract" if "UnwrapContractBroken" in txt else "returned_shape.contract"
                        violations.append({"mechanism": which + ".in_test_suite", "summary": f"{tc.get('classname')}::{tc.get('name')}: {txt[:300]}",
                                           "case": {"test": tc.get("name")}, "replay": dict(shard, name="replay")})
    import shutil

    shutil.rmtree(work, ignore_errors=True)
    c = {"suite_tests_run_under_contracts": ntests}
    c.update({"suite_" + k: v for k, v in counters.items()})
    return {"evaluations": ntests, "nontrivial": min(ntests, 2), "samples": [], "counters": c, "violations": violations,
            "required": {"suite_unwrap_contract_evaluations": counters.get("unwrap_contract_evaluations", 0)}}


class UnwrapContractBroken(Exception):
    pass


def install_unwrap_contract(counts):
    """Rebind the real unwrap (and every by-name import of it) to a contract-checked version."""
    import icontract
    import jax
    import flowjax.wrappers as W

    orig = W.unwrap

    def is_w(n):
        return isinstance(n, W.AbstractUnwrappable)

    def post(tree, result):
        leaves = jax.tree_util.tree_leaves((tree, result))
        if any(isinstance(l, jax.core.Tracer) for l in leaves):
            counts["unwrap_calls_traced"] = counts.get("unwrap_calls_traced", 0) + 1
            return True
        counts["unwrap_contract_evaluations"] = counts.get("unwrap_contract_evaluations", 0) + 1
        left = [n for n in jax.tree_util.tree_leaves(result, is_leaf=is_w) if is_w(n)]
        if left:
            counts["_witness"] = f"wrapper node of type {type(left[0]).__name__} left after unwrap"
            return False
        again = orig(result)
        a, b = jax.tree_util.tree_leaves(result), jax.tree_util.tree_leaves(again)
        same = len(a) == len(b) and all((np.asarray(x).tobytes() == np.asarray(y).tobytes()) if hasattr(x, "dtype") else True for x, y in zip(a, b))
        if not same:
            counts["_witness"] = "unwrap is not idempotent"
        return same

    checked = icontract.ensure(post, error=lambda: UnwrapContractBroken("unwrap post-condition"))(lambda tree: orig(tree))
    import flowjax.bijections.bijection as m1
    import flowjax.bijections.chain as m2
    import flowjax.distributions as m3
    import flowjax.train.losses as m4

    W.unwrap = checked
    n = 1
    for m in (m1, m2, m3, m4):
        if getattr(m, "unwrap", None) is orig:
            m.unwrap = checked
            n += 1
    counts["unwrap_bindings_patched"] = n
    return orig, checked


def run_shard(shard):
    if shard.get("pytest"):
        return run_suite_under_contracts(shard)
    import equinox as eqx
    import jax
    import jax.numpy as jnp
    import jax.random as jr
    import optax
    import flowjax.bijections as B
    import flowjax.distributions as D
    import flowjax.flows as F
    import flowjax.wrappers as W
    from flowjax.train import fit_to_data, fit_to_variational_target
    from flowjax.train.losses import ElboLoss, MaximumLikelihoodLoss
    from flowjax.utils import get_ravelled_pytree_constructor
    from fjmon import env
    from fjmon.bijcheck import Recorder
    from fjmon.common import chash, jsonable, partition_trainable

    rec = Recorder(shard, "C12")
    counts = {}
    orig_unwrap, unwrap = install_unwrap_contract(counts)
    rng = np.random.default_rng([shard["seed"], 12, shard["shard"]])
    f64 = lambda a: np.asarray(a, dtype=np.float64)

    def v(mech, msg, it, detail=None):
        rec.violation(mech, msg, it, ("init", 0.0), detail or {})

    # ------------------------------------------------------------------ (b) nestings -------
    class PlusOne(W.AbstractUnwrappable):
        """Harness-defined unwrappable: value + 1 (applied twice would give + 2)."""
        arr: object
        _dummy = None

        def unwrap(self):
            return self.arr + 1.0

    def np_softplus(x):
        return np.logaddexp(0.0, x)

    FNS = {"plus1": (lambda x: x + 1.0, lambda x: x + 1.0), "tril": (lambda x: jnp.tril(x), lambda x: np.tril(x)),
           "double": (lambda x: 2.0 * x, lambda x: 2.0 * x), "add": (lambda x, y: x + y, lambda x, y: x + y)}

    def gen(shape, depth, r, top=False):
        """-> (wrapped node, reference-evaluator closure () -> np value, wrapper count)"""
        if depth == 0 or r.random() < 0.25:
            a = r.normal(size=shape)
            return jnp.asarray(a), (lambda: a), 0
        k = r.choice(["reparam", "where", "wn", "lambda", "nontrainable", "plusone", "lambda2"])
        if k == "reparam":
            inner, ref, n = gen(shape, depth - 1, r)
            which = r.choice(["softplus", "exp", "affine"])
            if which == "softplus":
                return W.BijectionReparam(inner, B.SoftPlus(), invert_on_init=False), (lambda: np_softplus(ref())), n + 1
            if which == "exp":
                return W.BijectionReparam(inner, B.Exp(), invert_on_init=False), (lambda: np.exp(ref())), n + 1
            return W.BijectionReparam(inner, B.Affine(0.5, 2.0), invert_on_init=False), (lambda: 2.0 * ref() + 0.5), n + 1
        if k == "where":
            a, ra, na = gen(shape, depth - 1, r)
            m = r.random(shape) < 0.5
            if top and r.random() < 0.5:
                # masking idiom with a non-finite fill value (e.g. Where(active, logits, -inf)): selected entries stay finite
                fill = float(r.choice([-np.inf, np.inf, np.nan]))
                return W.Where(jnp.asarray(m), a, jnp.full(shape, fill)), (lambda: np.where(m, ra(), fill)), na + 1
            b, rb, nb = gen(shape, depth - 1, r)
            return W.Where(jnp.asarray(m), a, b), (lambda: np.where(m, ra(), rb())), na + nb + 1
        if k == "wn" and len(shape) == 2:
            inner, ref, n = gen(shape, depth - 1, r)
            node = W.WeightNormalization(inner)
            sc = f64(orig_unwrap(node.scale))
            def refwn():
                w = ref()
                return sc * w / np.linalg.norm(w, axis=-1, keepdims=True)
            return node, refwn, n + 1
        if k == "lambda":
            inner, ref, n = gen(shape, depth - 1, r)
            nm = str(r.choice(["plus1", "double"] + (["tril"] if len(shape) == 2 else [])))
            return W.Lambda(FNS[nm][0], inner), (lambda: FNS[nm][1](ref())), n + 1
        if k == "lambda2":
            a, ra, na = gen(shape, depth - 1, r)
            b, rb, nb = gen(shape, depth - 1, r)
            return W.Lambda(FNS["add"][0], a, y=b), (lambda: ra() + rb()), na + nb + 1
        if k == "nontrainable":
            inner, ref, n = gen(shape, depth - 1, r)
            return W.NonTrainable(inner), ref, n + 1
        inner, ref, n = gen(shape, depth - 1, r)
        return PlusOne(inner), (lambda: ref() + 1.0), n + 1

    class Holder(eqx.Module):
        a: object
        b: object
        name: str = "holder"

    def check_nesting(idx):
        r = np.random.default_rng([shard["seed"], 12, shard["shard"], idx])
        shape = tuple(int(s) for s in r.permutation([2, 3, 4])[: int(r.integers(1, 3))])
        node, ref, nw = gen(shape, int(r.integers(1, 4)), r, top=True)
        it = {"nesting": idx, "origin": "nesting"}
        rec.evals += 1
        container = r.choice(["bare", "tuple", "dict", "module", "list"])
        tree = {"bare": node, "tuple": (node, 3, "s"), "dict": {"k": node, "z": jnp.arange(2)}, "module": Holder(node, (node,)), "list": [node, [node]]}[container]
        try:
            out = unwrap(tree)
        except UnwrapContractBroken:
            v("unwrap.contract", f"unwrap post-condition failed on nesting #{idx} ({counts.get('_witness')}); container={container}", it)
            return
        except Exception as e:  # noqa: BLE001
            v(f"exception.{type(e).__name__}", f"unwrap raised {type(e).__name__}: {str(e)[:200]} on nesting #{idx}", it)
            return
        vals = [l for l in jax.tree_util.tree_leaves(out) if hasattr(l, "dtype") and jnp.issubdtype(l.dtype, jnp.floating)]
        want = ref()
        rec.count("reference_evaluator_comparisons", len(vals))
        for got in vals:
            g = f64(got)
            if g.shape != want.shape or not np.allclose(g, want, rtol=1e-12, atol=1e-12, equal_nan=True):
                v("unwrap.value", f"unwrap of nesting #{idx} ({nw} wrappers, container {container}) gives {g.ravel()[:4].tolist()}, applying every wrapper exactly once "
                                  f"gives {want.ravel()[:4].tolist()}", it, {"got": g, "reference": want})
                break
        if nw >= 2:
            rec.nontrivial.add(chash("nest", shard["shard"], idx))
        # ---- (c) vmapped construction, 1-2 levels, vs the stack of individually constructed ones
        levels = int(r.integers(1, 3))
        sizes = [3, 2][:levels]
        seeds = r.integers(0, 2**31 - 1, size=sizes)

        def make(seed_arr):
            # deterministic wrapper built from an array argument so that construction can be vmapped
            base = jnp.reshape(seed_arr.astype(float) % 7.0 - 3.0, ()) + jnp.arange(float(np.prod(shape))).reshape(shape) * 0.1
            inner = W.BijectionReparam(base, B.SoftPlus(), invert_on_init=False)
            m = jnp.arange(int(np.prod(shape))).reshape(shape) % 2 == 0
            out_ = W.Where(m, W.Lambda(FNS["plus1"][0], inner), PlusOne(base))
            return W.WeightNormalization(out_) if len(shape) == 2 else out_

        f = make
        for _ in range(levels):
            f = eqx.filter_vmap(f)
        try:
            stacked = f(jnp.asarray(seeds))
            got = f64(unwrap(stacked))
            indiv = np.empty(tuple(sizes) + shape)
            for ix in np.ndindex(*sizes):
                indiv[ix] = f64(orig_unwrap(make(jnp.asarray(seeds[ix]))))
            rec.count("vmapped_construction_comparisons")
            rec.evals += 1
            rec.nontrivial.add(chash("vm", shard["shard"], idx, levels))
            if got.shape != indiv.shape or not np.allclose(got, indiv, rtol=1e-12, atol=1e-12):
                v("unwrap.vmapped_construction", f"wrapper built under {levels} filter_vmap level(s) unwraps to a value different from the stack of individually "
                                                 f"built ones (max diff {np.abs(got - indiv).max() if got.shape == indiv.shape else 'shape'})", it)
        except UnwrapContractBroken:
            v("unwrap.contract", f"unwrap post-condition failed on a vmapped-constructed wrapper ({counts.get('_witness')})", it)
        except TypeError as e:
            if "NoneType" in str(e) and not env.shim_ok():
                rec.count("vmapped_construction_skipped_no_shim")
            else:
                v("exception.TypeError", f"vmapped construction/unwrapping raised TypeError: {str(e)[:200]}", it)

    # ------------------------------------------------------------------ (d) wrapped vs pre-unwrapped
    def check_methods(idx):
        from fjmon import specs as S
        from fjmon import distgen

        r = np.random.default_rng([shard["seed"], 12, shard["shard"], 5000 + idx])
        cat = S.leaf_catalogue() + S.combinator_catalogue()
        sp = cat[int(r.integers(0, len(cat)))]
        it = {"spec": sp, "origin": "methods"}
        key = jr.PRNGKey(int(r.integers(0, 2**31 - 1)))
        b = S.build(sp, key)
        d, c_ = S.tags(sp)
        x = r.normal(size=S.shape_of(sp))
        x = np.where(d == S.POS, np.abs(x) + 0.1, np.where(d == S.UNIT, np.tanh(x), x))
        cs = S.cond_shape_of(sp)
        c = None if cs is None else jnp.asarray(r.normal(size=cs))
        if not S.forward_ok(sp):
            return
        rec.evals += 1
        y1, l1 = b.transform_and_log_det(jnp.asarray(x), c)
        y2, l2 = unwrap(b).transform_and_log_det(jnp.asarray(x), c)
        rec.count("wrapped_vs_unwrapped_calls")
        if not (np.asarray(y1).tobytes() == np.asarray(y2).tobytes() and np.asarray(l1).tobytes() == np.asarray(l2).tobytes()):
            v("method.depends_on_unwrap", f"{sp['op']}.transform_and_log_det gives different results for the wrapped and the pre-unwrapped object", it)
        rec.nontrivial.add(chash("meth", sp))

    def check_dist_methods():
        key = jr.PRNGKey(int(rng.integers(0, 2**31 - 1)))
        models = [D.Normal(jnp.arange(3.0), jnp.array([0.5, 1.0, 2.0])), D.StudentT(jnp.array([3.0, 5.0])),
                  F.masked_autoregressive_flow(key, base_dist=D.Normal(jnp.zeros(2), jnp.ones(2)), flow_layers=2, nn_width=4),
                  D.VmapMixture(eqx.filter_vmap(D.Normal)(jnp.arange(3.0), jnp.ones(3)), jnp.array([1.0, 2.0, 3.0]))]
        for m in models:
            x = jr.normal(key, (5, *m.shape))
            rec.evals += 1
            a, b_ = np.asarray(m.log_prob(x)), np.asarray(unwrap(m).log_prob(x))
            s1, s2 = np.asarray(m.sample(key, (4,))), np.asarray(unwrap(m).sample(key, (4,)))
            rec.count("wrapped_vs_unwrapped_calls", 2)
            if a.tobytes() != b_.tobytes() or s1.tobytes() != s2.tobytes():
                v("method.depends_on_unwrap", f"{type(m).__name__}: log_prob/sample differ between the wrapped and the pre-unwrapped distribution", {"model": type(m).__name__, "origin": "dist-methods"})
            p, st = partition_trainable(m)
            l1 = MaximumLikelihoodLoss()(p, st, x)
            pu, su = partition_trainable(unwrap(m))
            l2 = MaximumLikelihoodLoss()(pu, su, x)
            ref = -float(np.mean(a))
            rec.count("loss_wrapped_vs_unwrapped")
            if abs(float(l1) - float(l2)) > 1e-12 * (1 + abs(ref)) or abs(float(l1) - ref) > 1e-9 * (1 + abs(ref)):
                v("loss.depends_on_unwrap", f"{type(m).__name__}: MaximumLikelihoodLoss {float(l1)} (wrapped) vs {float(l2)} (unwrapped) vs -mean(log_prob) {ref}", {"model": type(m).__name__, "origin": "dist-methods"})

    # ------------------------------------------------------------------ (e) (f) (g) frozen -
    def model_zoo(key):
        ks = jr.split(key, 6)
        Z = {
            "Normal": lambda: D.Normal(jnp.arange(3.0), jnp.array([0.5, 1.0, 2.0])),
            "maf": lambda: F.masked_autoregressive_flow(ks[0], base_dist=D.Normal(jnp.zeros(3), jnp.ones(3)), flow_layers=2, nn_width=4),
            "coupling_rqs": lambda: F.coupling_flow(ks[1], base_dist=D.StudentT(jnp.full((3,), 4.0)), flow_layers=2, nn_width=4,
                                                    transformer=B.RationalQuadraticSpline(knots=3, interval=3)),
            "planar": lambda: F.planar_flow(ks[2], base_dist=D.StandardNormal((2,)), flow_layers=2, negative_slope=0.2),
            "mixture": lambda: D.VmapMixture(eqx.filter_vmap(D.Normal)(jnp.arange(3.0), jnp.ones(3)), jnp.array([1.0, 2.0, 3.0])),
            "transformed": lambda: D.Transformed(D.Normal(jnp.zeros(3), jnp.ones(3)), B.Chain([B.Affine(jnp.ones(3), jnp.full((3,), 2.0)), B.Permute(jnp.array([2, 0, 1])),
                                                                                                B.TriangularAffine(jnp.zeros(3), jnp.eye(3) + 0.2)])),
        }
        # models holding NumPy float leaves (put there with eqx.tree_at - equinox treats them as parameters like jax arrays)
        Z["normal_numpy_loc"] = lambda: eqx.tree_at(lambda m: m.bijection.loc, D.Normal(jnp.arange(3.0), jnp.array([0.5, 1.0, 2.0])), np.array([0.3, -1.0, 2.0]))
        Z["transformed_numpy_leaf"] = lambda: eqx.tree_at(lambda m: m.bijection.bijections[0].loc, Z["transformed"](), np.array([1.0, 0.5, -0.5]))
        if env.shim_ok():
            Z["triangular_spline"] = lambda: F.triangular_spline_flow(ks[3], base_dist=D.StandardNormal((2,)), flow_layers=2, knots=3)
        return Z

    def unmarked_after_non_trainable(tree):
        """inexact array leaves (jax or NumPy) of non_trainable(tree) that are not inside a NonTrainable node"""
        is_nt = lambda n: isinstance(n, W.NonTrainable)
        return [jax.tree_util.keystr(pth) for pth, leaf in jax.tree_util.tree_flatten_with_path(W.non_trainable(tree), is_leaf=is_nt)[0]
                if not is_nt(leaf) and eqx.is_inexact_array(leaf)]

    def freeze_random(model, r):
        """Freeze a random subset: non_trainable on random subtrees and NonTrainable(tree) around one subtree."""
        where_opts = []
        if hasattr(model, "base_dist"):
            where_opts.append(lambda m: m.base_dist)
        if hasattr(model, "bijection"):
            where_opts.append(lambda m: m.bijection)
        if isinstance(model, D.VmapMixture):
            where_opts += [lambda m: m.dist, lambda m: m.log_normalized_weights]
        if isinstance(model, D.Normal):
            where_opts += [lambda m: m.bijection.loc, lambda m: m.bijection.scale]
        mode = r.choice(["subtree_non_trainable", "subtree_NonTrainable", "random_leaves", "all"])
        if mode == "all":
            rec.count("non_trainable_marking_checks")
            um = unmarked_after_non_trainable(model)
            if um:
                v("non_trainable.unmarked_leaf", f"non_trainable(model) left the floating-point array leaves {um[:4]} outside any NonTrainable wrapper", {"origin": "training", "mode": "all"})
            return W.non_trainable(model), mode
        if mode == "random_leaves" or not where_opts:
            p, st = partition_trainable(model)
            leaves, td = jax.tree_util.tree_flatten(p)
            pick = [bool(r.random() < 0.5) for _ in leaves]
            if not any(pick):
                pick[0] = True
            if all(pick) and len(pick) > 1:
                pick[-1] = False
            new = [W.NonTrainable(l) if f else l for l, f in zip(leaves, pick)]
            return eqx.combine(jax.tree_util.tree_unflatten(td, new), st, is_leaf=lambda n: isinstance(n, W.NonTrainable)), mode
        w = where_opts[int(r.integers(0, len(where_opts)))]
        if mode == "subtree_non_trainable":
            rec.count("non_trainable_marking_checks")
            um = unmarked_after_non_trainable(w(model))
            if um:
                v("non_trainable.unmarked_leaf", f"non_trainable(subtree) left the floating-point array leaves {um[:4]} outside any NonTrainable wrapper", {"origin": "training", "mode": "subtree"})
            return eqx.tree_at(w, model, replace_fn=W.non_trainable), mode
        return eqx.tree_at(w, model, replace_fn=W.NonTrainable), mode

    def leaves_with_flags(model):
        """[(path, array, frozen?, floating?)] for every array leaf; frozen = inside a NonTrainable node."""
        out = []
        is_nt = lambda n: isinstance(n, W.NonTrainable)
        for path, node in jax.tree_util.tree_flatten_with_path(model, is_leaf=is_nt)[0]:
            if is_nt(node):
                for p2, leaf in jax.tree_util.tree_flatten_with_path(node)[0]:
                    if hasattr(leaf, "dtype"):
                        out.append((jax.tree_util.keystr(path) + jax.tree_util.keystr(p2), np.asarray(leaf), True, bool(jnp.issubdtype(leaf.dtype, jnp.inexact))))
            elif hasattr(node, "dtype"):
                out.append((jax.tree_util.keystr(path), np.asarray(node), False, bool(jnp.issubdtype(node.dtype, jnp.inexact))))
        return out

    def counting_opt():
        return optax.GradientTransformation(lambda p: (), lambda g, s, params=None: (jax.tree_util.tree_map(jnp.ones_like, g), s))

    OPTS = {"adam": lambda: optax.adam(0.05), "adamw": lambda: optax.adamw(0.05, weight_decay=0.3), "sgd_momentum": lambda: optax.sgd(0.05, momentum=0.9),
            "plus_one": counting_opt}

    def check_training(idx):
        r = np.random.default_rng([shard["seed"], 12, shard["shard"], 9000 + idx])
        key = jr.PRNGKey(int(r.integers(0, 2**31 - 1)))
        zoo = model_zoo(key)
        name = list(zoo)[int(r.integers(0, len(zoo)))]
        model = zoo[name]()
        frozen_model, fmode = freeze_random(model, r)
        oname = list(OPTS)[int(r.integers(0, len(OPTS)))]
        loop = str(r.choice(["data", "vi"]))
        it = {"model": name, "freeze": str(fmode), "optimizer": oname, "loop": loop, "index": idx, "origin": "training"}
        before = leaves_with_flags(frozen_model)
        n_frozen = sum(1 for _, _, fz, fl in before if fz and fl)
        n_free = sum(1 for _, _, fz, fl in before if not fz and fl)
        rec.evals += 1
        # (e) exact zero gradient on frozen leaves
        x = jr.normal(key, (6, *model.shape)) + 0.5
        try:
            g = eqx.filter_grad(lambda m: m.log_prob(x).sum())(frozen_model)
        except Exception as e:  # noqa: BLE001
            v(f"exception.{type(e).__name__}", f"gradient of log_prob for {name} with frozen part raised {type(e).__name__}: {str(e)[:200]}", it)
            return
        for path, arr, fz, fl in leaves_with_flags(g):
            if fz and fl:
                rec.count("frozen_gradient_leaves_checked")
                if np.any(arr != 0):
                    v("frozen.gradient_nonzero", f"{name} [{fmode}]: NonTrainable leaf {path} receives gradient {arr.ravel()[:3].tolist()}", it)
                    return
        # (g) training leaves frozen / non-floating leaves bit-identical
        try:
            if loop == "data":
                out, _ = fit_to_data(key, frozen_model, x, max_epochs=int(r.integers(1, 4)), batch_size=3, optimizer=OPTS[oname](), show_progress=False, val_prop=0.34,
                                     return_best=bool(r.random() < 0.5))
            else:
                loss = ElboLoss(lambda z: -0.5 * jnp.sum((z - 0.3) ** 2), num_samples=6, stick_the_landing=bool(r.random() < 0.5))
                out, _ = fit_to_variational_target(key, frozen_model, loss, steps=int(r.integers(1, 6)), optimizer=OPTS[oname](), show_progress=False,
                                                   return_best=bool(r.random() < 0.5))
        except Exception as e:  # noqa: BLE001
            v(f"exception.{type(e).__name__}", f"training {name} [{fmode}] with {oname} ({loop}) raised {type(e).__name__}: {str(e)[:200]}", it)
            return
        after = leaves_with_flags(out)
        rec.count("training_runs")
        if [p for p, *_ in before] != [p for p, *_ in after]:
            v("training.structure_changed", f"{name}: the model's structure changed during training", it)
            return
        moved_free = 0
        for (path, a0, fz, fl), (_, a1, _, _) in zip(before, after):
            same = a0.tobytes() == a1.tobytes() and a0.shape == a1.shape
            if fz or not fl:
                rec.count("frozen_or_nonfloat_leaves_compared")
                if not same:
                    kind = "frozen" if fz else "non-floating"
                    v("frozen.moved" if fz else "nonfloat.moved", f"{name} [{fmode}] trained with {oname} ({loop}): {kind} leaf {path} changed "
                                                                     f"(max |delta| {np.abs(a1.astype(float) - a0.astype(float)).max() if a0.shape == a1.shape else 'shape'})", it)
                    return
            elif not same:
                moved_free += 1
        rec.count("trainable_leaves_moved", moved_free)
        if n_frozen and n_free:
            rec.nontrivial.add(chash("train", shard["shard"], idx))
        if len(rec.samples) < 3:
            rec.samples.append(jsonable({"model": name, "freeze_mode": str(fmode), "optimizer": oname, "loop": loop, "frozen_float_leaves": n_frozen,
                                         "trainable_float_leaves": n_free, "trainable_leaves_that_moved": moved_free}))

    def check_merge_keeps_frozen(idx):
        """History: construct with a frozen sub-chain -> merge_chains -> the leaves that were frozen must still be frozen (and the
        function unchanged)."""
        r = np.random.default_rng([shard["seed"], 12, shard["shard"], 7000 + idx])
        key = jr.PRNGKey(int(r.integers(0, 2**31 - 1)))
        ks = jr.split(key, 6)
        d_ = 3
        aff = lambda k_: B.Affine(jr.normal(k_, (d_,)), jnp.exp(0.3 * jr.normal(jr.fold_in(k_, 1), (d_,))))
        frozen_sub = W.NonTrainable(B.Chain([aff(ks[0]), B.Permute(jnp.array([2, 0, 1]))])) if r.random() < 0.5 else W.non_trainable(B.Chain([aff(ks[0]), B.Permute(jnp.array([2, 0, 1]))]))
        chain = B.Chain([aff(ks[1]), frozen_sub, B.Chain([B.Loc(jr.normal(ks[2], (d_,))), W.non_trainable(B.Scale(jnp.exp(jr.normal(ks[3], (d_,)))))]), aff(ks[4])])
        it = {"origin": "merge", "index": idx}
        rec.evals += 1
        rec.count("merge_keeps_frozen_checks")
        rec.nontrivial.add(chash("merge", shard["shard"], idx))
        before = leaves_with_flags(chain)
        frozen_bytes = {a.tobytes() for _, a, fz, fl in before if fz and fl}
        try:
            merged = chain.merge_chains()
        except Exception as e:  # noqa: BLE001
            v(f"exception.{type(e).__name__}", f"merge_chains on a chain with a frozen sub-chain raised {type(e).__name__}: {str(e)[:200]}", it)
            return
        after = leaves_with_flags(merged)
        thawed = [p_ for p_, a, fz, fl in after if fl and not fz and a.tobytes() in frozen_bytes]
        if thawed:
            v("frozen.thawed_by_merge", f"merge_chains made frozen leaves trainable: {thawed[:3]}", it)
        x = jr.normal(ks[5], (d_,))
        g = eqx.filter_grad(lambda m_: m_.transform(x).sum())(merged)
        for path, arr, fz, fl in leaves_with_flags(g):
            pass
        y0, y1 = np.asarray(chain.transform(x)), np.asarray(merged.transform(x))
        if not np.allclose(y0, y1, rtol=1e-12, atol=1e-12):
            v("merge.value", "merge_chains changed the function of a chain with a frozen sub-chain", it)

    def check_composites_keep_wrappers():
        """Construction history: a part that carries wrappers (a frozen leaf, a reparameterised scale) is handed to every composite
        constructor; the composite must still contain those wrapper nodes (same arrays), its frozen leaves get zero gradient and
        calling it equals calling the unwrapped composite."""
        d_ = 3
        def part():
            a = B.Affine(jnp.array([0.5, -1.0, 2.0]), jnp.array([1.0, 2.0, 0.5]))
            return eqx.tree_at(lambda t: t.loc, a, replace_fn=W.NonTrainable)

        def stacked():
            a = eqx.filter_vmap(B.Affine)(jnp.array([0.5, -1.0, 2.0]), jnp.array([1.0, 2.0, 0.5]))
            return eqx.tree_at(lambda t: t.loc, a, replace_fn=W.NonTrainable)

        def stacked_layers():
            a = eqx.filter_vmap(lambda l: B.Affine(l * jnp.ones(d_), jnp.ones(d_) * 1.5))(jnp.array([0.5, -1.0]))
            return eqx.tree_at(lambda t: t.loc, a, replace_fn=W.NonTrainable)

        builders = {
            "Vmap(in_axes=eqx.if_array(0))": (lambda: B.Vmap(stacked(), in_axes=eqx.if_array(0)), (d_,)),
            "Vmap(axis_size=2)": (lambda: B.Vmap(part(), axis_size=2), (2, d_)),
            "Scan": (lambda: B.Scan(stacked_layers()), (d_,)),
            "Chain": (lambda: B.Chain([part(), B.Tanh((d_,))]), (d_,)),
            "Invert": (lambda: B.Invert(part()), (d_,)),
            "Concatenate": (lambda: B.Concatenate([part(), B.Exp((2,))]), (5,)),
            "Stack": (lambda: B.Stack([part(), B.Affine(jnp.zeros(d_), jnp.ones(d_))]), (2, d_)),
            "Partial": (lambda: B.Partial(part(), jnp.array([0, 2, 4]), (5,)), (5,)),
            "Reshape": (lambda: B.Reshape(part(), (1, d_)), (1, d_)),
            "EmbedCondition": (lambda: B.EmbedCondition(B.Chain([part(), B.AdditiveCondition(lambda c: c, (d_,), (d_,))]), lambda c: jnp.tile(c, d_)[:d_], (1,)), (d_,)),
            "Transformed": (lambda: D.Transformed(D.Normal(jnp.zeros(d_), jnp.ones(d_)), part()), (d_,)),
            "Transformed(as base)": (lambda: D.Transformed(D.Transformed(D.Normal(jnp.zeros(d_), jnp.ones(d_)), part()), B.Tanh((d_,))), (d_,)),
        }
        is_nt = lambda n_: isinstance(n_, W.NonTrainable)
        for nm, (build, shape) in builders.items():
            it = {"composite": nm, "origin": "composite"}
            rec.evals += 1
            rec.count("composite_wrapper_survival_checks")
            try:
                obj = build()
            except Exception as e:  # noqa: BLE001
                v(f"exception.{type(e).__name__}", f"constructing {nm} around a part with a frozen leaf raised {type(e).__name__}: {str(e)[:200]}", it)
                continue
            nts = [n_ for n_ in jax.tree_util.tree_leaves(obj, is_leaf=is_nt) if is_nt(n_)]
            if len(nts) != 1:
                v("composite.wrapper_lost", f"{nm}: built around a part with one NonTrainable leaf, the composite holds {len(nts)} NonTrainable nodes", it)
                continue
            cond = jnp.array([0.3]) if nm == "EmbedCondition" else None
            x = jnp.full(shape, 0.2)
            f = (lambda m: m.log_prob(x).sum()) if isinstance(obj, D.AbstractDistribution) else (lambda m: m.transform_and_log_det(x, cond)[1] + m.transform(x, cond).sum())
            g = eqx.filter_grad(f)(obj)
            gl = [np.asarray(n_.tree) for n_ in jax.tree_util.tree_leaves(g, is_leaf=is_nt) if is_nt(n_)]
            if not gl or np.any(gl[0] != 0):
                v("frozen.gradient_nonzero", f"{nm}: the frozen leaf of the wrapped part receives gradient {None if not gl else gl[0].ravel()[:3].tolist()}", it)
            if not np.allclose(float(f(obj)), float(f(W.unwrap(obj))), rtol=1e-12, atol=1e-12):
                v("unwrap.method_equivalence", f"{nm}: calling the composite differs from calling the unwrapped composite", it)
            rec.nontrivial.add(chash("composite", nm))


    def check_wrapper_payload_modules():
        """'Every wrapper node in any pytree (nested wrappers ...)': a wrapper whose payload is a *module that itself holds wrappers*
        (a frozen sub-module, a Lambda over a module) - none held directly in the outer wrapper's own fields."""
        loc, scale = jnp.asarray([0.3, -1.2, 2.0]), jnp.asarray([0.5, 2.0, 3.0])
        aff = B.Affine(loc, scale)
        trees = {
            "Lambda(fn, Affine)": (W.Lambda(lambda b: b.scale * 2.0 + b.loc, aff), lambda out: (f64(out), f64(scale) * 2.0 + f64(loc))),
            "NonTrainable(Affine)": (W.NonTrainable(aff), lambda out: (f64(out.scale), f64(scale))),
            "(NonTrainable(Normal), 3)": ((W.NonTrainable(D.Normal(loc, scale)), 3), lambda out: (f64(out[0].scale), f64(scale))),
            "Holder(Lambda(fn, Holder(BijectionReparam)))": (
                Holder(W.Lambda(lambda h: h.a + 1.0, Holder(W.BijectionReparam(scale, B.SoftPlus()), None)), "x"),
                lambda out: (f64(out.a), f64(scale) + 1.0)),
            "NonTrainable(Holder(Lambda(fn, Affine)))": (
                W.NonTrainable(Holder(W.Lambda(lambda b: b.scale, aff), jnp.arange(2))), lambda out: (f64(out.a), f64(scale))),
            "Transformed(frozen Affine bijection)": (
                eqx.tree_at(lambda d_: d_.bijection, D.Transformed(D.StandardNormal((3,)), aff), replace_fn=W.NonTrainable),
                lambda out: (f64(out.bijection.scale), f64(scale))),
        }
        for nm, (tree, probe) in trees.items():
            it = {"payload": nm, "origin": "payload"}
            rec.evals += 1
            rec.count("wrapper_payload_module_cases")
            rec.nontrivial.add(chash("payload", nm))
            try:
                out = unwrap(tree)
                got, want = probe(out)
            except UnwrapContractBroken:
                v("unwrap.contract", f"unwrap post-condition failed on {nm} ({counts.get('_witness')})", it)
                continue
            except Exception as e:  # noqa: BLE001
                v(f"exception.{type(e).__name__}", f"unwrap of {nm} (or reading its value) raised {type(e).__name__}: {str(e)[:200]}", it)
                continue
            if got.shape != want.shape or not np.allclose(got, want, rtol=1e-12, atol=1e-12):
                v("unwrap.value", f"unwrap of {nm} gives {got.ravel()[:4].tolist()}, applying every wrapper exactly once gives {want.ravel()[:4].tolist()}", it)

    def check_conditioner_exclusion():
        """(f) frozen leaves are not parameterised by coupling / autoregressive conditioners."""
        for tr_name, tr in {"Affine(loc frozen)": eqx.tree_at(lambda a: a.loc, B.Affine(0.7, 1.3), replace_fn=W.NonTrainable),
                            "Affine(all frozen)": W.non_trainable(B.Affine(0.7, 1.3)),
                            "affine_with_min_scale": F._affine_with_min_scale(0.05),
                            "RQS(derivatives frozen)": eqx.tree_at(lambda s_: s_.derivatives, B.RationalQuadraticSpline(knots=3, interval=2), replace_fn=W.NonTrainable)}.items():
            it = {"transformer": tr_name, "origin": "conditioner"}
            rec.evals += 1
            ctor, n = get_ravelled_pytree_constructor(tr)
            p, _ = partition_trainable(tr)
            n_train = sum(int(np.prod(l.shape)) for l in jax.tree_util.tree_leaves(p))
            rec.count("conditioner_exclusion_checks")
            rec.nontrivial.add(chash("cond", tr_name))
            if n != n_train:
                v("frozen.parameterised", f"{tr_name}: get_ravelled_pytree_constructor counts {n} parameters, {n_train} are trainable", it)
                continue
            new = ctor(jnp.asarray(rng.normal(size=n)) * 3)
            b0 = {p_: a for p_, a, fz, fl in leaves_with_flags(tr) if fz}
            b1 = {p_: a for p_, a, fz, fl in leaves_with_flags(new) if fz}
            if b0.keys() != b1.keys() or any(b0[k].tobytes() != b1[k].tobytes() for k in b0):
                v("frozen.parameterised", f"{tr_name}: a frozen leaf was changed by the conditioner's parameter vector", it)
            for cls in (B.Coupling, B.MaskedAutoregressive):
                kw = {"untransformed_dim": 1} if cls is B.Coupling else {}
                layer = cls(jr.PRNGKey(1), transformer=tr, dim=3, nn_width=4, nn_depth=1, **kw)
                out_size = layer.conditioner.out_size if cls is B.Coupling else layer.masked_autoregressive_mlp.out_size
                exp = n_train * (2 if cls is B.Coupling else 3)
                if out_size != exp:
                    v("frozen.parameterised", f"{cls.__name__} with {tr_name}: conditioner emits {out_size} values, expected {exp} (trainable only)", it)

    only = shard.get("items")
    if only:
        o = only[0]
        if o.get("origin") == "nesting":
            check_nesting(o["nesting"])
        elif o.get("origin") == "training":
            check_training(o["index"])
        elif o.get("origin") == "payload":
            check_wrapper_payload_modules()
        else:
            check_dist_methods(); check_conditioner_exclusion()
    else:
        for i in range(shard["nest"]):
            check_nesting(i)
        for i in range(max(4, shard["nest"] // 2)):
            try:
                check_methods(i)
            except UnwrapContractBroken:
                v("unwrap.contract", f"unwrap post-condition failed inside a bijection method ({counts.get('_witness')})", {"origin": "methods", "index": i})
        if shard["shard"] % 4 == 0:
            check_dist_methods()
        if shard["shard"] % 4 == 1:
            check_conditioner_exclusion()
        if shard["shard"] % 4 == 2:
            check_composites_keep_wrappers()
        if shard["shard"] % 4 == 3:
            check_wrapper_payload_modules()
        for i in range(3):
            check_merge_keeps_frozen(i)
        for i in range(shard["train"]):
            try:
                check_training(i)
            except UnwrapContractBroken:
                v("unwrap.contract", f"unwrap post-condition failed during training ({counts.get('_witness')})", {"origin": "training", "index": i})
    for k, val in counts.items():
        if not k.startswith("_"):
            rec.count(k, val)
    out = rec.result()
    if not shard.get("replay"):
        out["required"] = {k: rec.counters.get(k, 0) for k in ("unwrap_contract_evaluations", "reference_evaluator_comparisons", "vmapped_construction_comparisons",
                                                               "frozen_or_nonfloat_leaves_compared", "frozen_gradient_leaves_checked", "training_runs")}
    return out
