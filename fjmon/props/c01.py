"""C01 - inverse undoes transform, both ways; `*_and_log_det` point equals the plain point."""
from fjmon import bijcheck

PROPERTY = "C01"
LEVEL = "exploration"
NEEDS_SHIM = True
RULE = ("structures = every leaf class x constructor variants + hand-written instance of every combinator (axis/index variants) "
        "+ the bijection of every flow factory x invert x cond x transformer + seeded random expression trees (depth<=3); "
        "x parameter modes (init, perturbed raw leaves sigma 0.5/1.5 [thorough: 0.3..3]) x boundary-directed inputs "
        "(random N(0,{0.1,1,10}), exact critical values of every leaf with +-1,2 ulp neighbours, magnitudes to 1e6) in both "
        "directions (domain points and independently drawn codomain points). A case = (structure, parameter draw, input, direction); "
        "non-trivial = compared (well-conditioned) AND the map moves the point (|f(x)-x|>1e-6); distinct_nontrivial counts up to 8 "
        "hashed representatives per (structure, parameter draw, direction) (conservative lower bound; total in counters.nontrivial_cases_total)")
ASSUMPTIONS = [
    "tolerance model DESIGN.md 3.5: K=1e4, eps, conditioning gate; ill-conditioned cases are executed but not compared",
    "numerically inverted maps: search tolerance amplified by max(1+Skeel condition, triangular propagation factor)",
    "non-finite outputs are only alarms for expressions without Exp (overflow-capable)",
    "equinox shim (harness process only) so that BNAF / triangular-spline flows are constructible on this jax/equinox pair",
]
ANCHOR_FILES = ["bijections/bijection.py", "bijections/affine.py", "bijections/rational_quadratic_spline.py", "bijections/tanh.py",
                "bijections/planar.py", "bijections/coupling.py", "bijections/masked_autoregressive.py",
                "bijections/block_autoregressive_network.py", "bijections/chain.py", "bijections/concatenate.py",
                "bijections/jax_transforms.py", "bijections/utils.py", "flows.py", "bisection_search.py"]
REQUIRED_FUNCS = ["bijections/rational_quadratic_spline.py:RationalQuadraticSpline.inverse",
                  "bijections/tanh.py:LeakyTanh.inverse", "bijections/masked_autoregressive.py:MaskedAutoregressive.inv_scan_fn",
                  "bijections/planar.py:_UnconditionalPlanar.inverse_and_log_det", "bijections/coupling.py:Coupling.inverse",
                  "bijections/block_autoregressive_network.py:BlockAutoregressiveNetwork.inverse",
                  "bijections/chain.py:Chain.inverse", "bijections/jax_transforms.py:Scan.inverse",
                  "bijections/jax_transforms.py:Vmap.inverse", "bijections/concatenate.py:Concatenate.inverse",
                  "bijections/concatenate.py:Stack.inverse", "bijections/utils.py:Partial.inverse",
                  "bijections/utils.py:Permute.inverse", "bijections/affine.py:TriangularAffine.inverse",
                  "flows.py:triangular_spline_flow", "flows.py:block_neural_autoregressive_flow"]


def plan(tier, seed):
    nsh = 16
    groups = bijcheck.plan_structures(tier, seed, nsh)
    shards = [{"name": f"C01-{i}", "shard": i, "items": g, "x64": True, "timeout": 3400} for i, g in enumerate(groups)]
    # float32 pass (the library's default precision): every leaf class and flow factory; thorough adds the combinators
    f32 = bijcheck.plan_structures("quick", seed + 1, 8)
    keep = ("leaf", "flow") if tier != "thorough" else ("leaf", "flow", "combinator")
    shards += [{"name": f"C01-f32-{i}", "shard": 100 + i, "items": [it for it in g if it["origin"] in keep], "x64": False,
                "timeout": 3400} for i, g in enumerate(f32)]
    return shards


def run_shard(shard):
    out = bijcheck.run_shard(shard, "C01")
    c = out["counters"]
    if not shard.get("replay"):
        out["required"] = {k: c.get(k, 0) for k in ("roundtrip_domain_compared", "roundtrip_codomain_compared")}
    return out
