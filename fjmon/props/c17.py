"""C17 - loss functions compute their defining estimators.

Reference-model monitor: MaximumLikelihoodLoss vs -mean(public log_prob) (wrapped / partly frozen models too);
ElboLoss vs mean(log q(x) - target(x)) over sample_and_log_prob(key, (n,)); stick-the-landing value == plain value and
its gradient == plain gradient - mean score (the score term computed independently from the public log_prob with the
samples held fixed); ContrastiveLoss: a harness tag distribution records, at the public log_prob boundary (host
callbacks), exactly which (x row, condition row) pairs are evaluated, from which the contrastive sets are recovered
and the softmax cross-entropy recomputed in NumPy."""
from __future__ import annotations

import numpy as np

PROPERTY = "C17"
LEVEL = "exploration"
NEEDS_SHIM = False
RULE = ("models {Normal, Transformed(Normal, Affine), coupling flow, masked autoregressive flow (conditional for the data losses), mixture} "
        "wrapped and partly frozen x batch sizes 2-12 x num_samples 1-64 x every n_contrastive in 1..batch-1 x keys. A case = one loss "
        "evaluation (value and, for ELBO, gradient); non-trivial = batch/num_samples >= 2 and parameters perturbed away from the "
        "initialisation; distinct = hashed (model, loss kind, sizes, key)")
ASSUMPTIONS = [
    "value tolerance 1e-10 relative (same arithmetic through the public methods); gradient identity tolerance 1e-6 (1+|g|+|score|)",
    "contrastive sets are observed at the public log_prob boundary of a harness distribution; rows carry unique tags",
]
ANCHOR_FILES = ["train/losses.py"]
REQUIRED_FUNCS = ["train/losses.py:MaximumLikelihoodLoss.__call__", "train/losses.py:ContrastiveLoss.__call__", "train/losses.py:ContrastiveLoss.__call__.single_x_loss",
                  "train/losses.py:_get_contrastive_idxs", "train/losses.py:_get_contrastive_idxs._get_idxs", "train/losses.py:ElboLoss.__call__"]


def plan(tier, seed):
    nsh = 16
    return [{"name": f"C17-{i}", "shard": i, "reps": 1 if tier != "thorough" else 4, "stride": 4 if tier != "thorough" else 1, "x64": True, "timeout": 3400}
            for i in range(nsh)]


def run_shard(shard):
    import equinox as eqx
    import jax
    import jax.numpy as jnp
    import jax.random as jr
    from scipy.special import logsumexp
    import flowjax.bijections as B
    import flowjax.distributions as D
    from flowjax.distributions import AbstractDistribution
    from flowjax.flows import coupling_flow, masked_autoregressive_flow
    from flowjax.train.losses import ContrastiveLoss, ElboLoss, MaximumLikelihoodLoss, _get_contrastive_idxs
    from flowjax.wrappers import NonTrainable, non_trainable
    from fjmon.bijcheck import Recorder
    from fjmon.common import chash, jsonable, partition_trainable, perturb

    rec = Recorder(shard, "C17")
    f64 = lambda a: np.asarray(a, dtype=np.float64)

    def v(mech, msg, it, detail=None):
        rec.violation(mech, msg, it, ("init", 0.0), detail or {})

    def models(key, cond):
        ks = jr.split(key, 6)
        cd = 2 if cond else None
        Z = {"coupling": lambda: coupling_flow(ks[0], base_dist=D.StandardNormal((3,)), cond_dim=cd, flow_layers=2, nn_width=5),
             "maf_rqs": lambda: masked_autoregressive_flow(ks[1], base_dist=D.Normal(jnp.zeros(3), jnp.ones(3)), cond_dim=cd, flow_layers=2, nn_width=5,
                                                           transformer=B.RationalQuadraticSpline(knots=3, interval=3), invert=bool(cond))}
        if not cond:
            Z["Normal"] = lambda: D.Normal(jr.normal(ks[2], (3,)), jnp.exp(0.3 * jr.normal(ks[3], (3,))))
            Z["affine"] = lambda: D.Transformed(D.Normal(jnp.zeros(3), jnp.ones(3)), B.Affine(jr.normal(ks[4], (3,)), jnp.exp(0.3 * jr.normal(ks[5], (3,)))))
            Z["mixture"] = lambda: D.VmapMixture(eqx.filter_vmap(D.Normal)(jr.normal(ks[2], (3, 3)), jnp.ones((3, 3))), jnp.array([1.0, 2.0, 0.5]))
            # restricted supports: about a third of the rows of a standard-normal batch lie outside (log_prob = -inf there, so the
            # defining loss, minus the *mean* log-probability, is +inf)
            Z["lognormal"] = lambda: D.LogNormal(jr.normal(ks[2], (3,)) * 0.3, jnp.exp(0.3 * jr.normal(ks[3], (3,))))
            Z["uniform"] = lambda: D.Uniform(jnp.full((3,), -2.5), jnp.array([2.5, 3.0, 4.0]))
        return Z

    def variants(m, r):
        out = {"plain": m, "perturbed": perturb(m, 0.4, int(r.integers(0, 10**6)), clip=6.0)}
        out["frozen_base"] = eqx.tree_at(lambda d: d.base_dist, out["perturbed"], replace_fn=non_trainable) if hasattr(m, "base_dist") else non_trainable(out["perturbed"])
        return out

    stride = shard.get("stride", 1)
    tick = [shard["shard"]]

    def mine():
        """quick tier: every shard takes every `stride`-th (model, variant) combination, offset by its index"""
        tick[0] += 1
        return tick[0] % stride == 0

    for rep in range(shard["reps"]):
        # every loss object / batch shape is its own XLA executable; a long thorough run otherwise exhausts the process's
        # memory-map budget (vm.max_map_count) inside LLVM ("Cannot allocate memory")
        jax.clear_caches()
        r = np.random.default_rng([shard["seed"], 17, shard["shard"], rep])
        key = jr.PRNGKey(int(r.integers(0, 2**31 - 1)))
        # ---------------------------------------------------------- maximum likelihood -----
        for cond in (False, True):
            Z = models(key, cond)
            for nm in Z:
                for vn, m in variants(Z[nm](), r).items():
                    if not mine():
                        continue
                    n = int(r.integers(2, 13))
                    p, s = partition_trainable(m)
                    ml = MaximumLikelihoodLoss()  # one loss object over all batch layouts
                    # batch layouts: the ordinary (n, dim) one, several leading batch axes, a batch that only arises by broadcasting
                    # against the conditioning variables, a single row
                    layouts = [("rows", (n, 3), (n, 2)), ("two batch axes", (3, n, 3), (3, n, 2)), ("single row", (1, 3), (1, 2))]
                    if cond:
                        layouts += [("x broadcast against conditions", (3,), (n, 2)), ("outer product with conditions", (n, 3), (4, 1, 2))]
                    for lay, xs_, cs_ in layouts:
                        x = jnp.asarray(r.normal(size=xs_) * 1.5)
                        c = jnp.asarray(r.normal(size=cs_)) if cond else None
                        it = {"model": nm, "variant": vn, "cond": cond, "loss": "ml", "layout": lay, "rep": rep, "origin": "generated"}
                        rec.evals += 1
                        try:
                            got = float(ml(p, s, x, c))
                            lps = f64(m.log_prob(x, c))
                            ref = -float(np.mean(lps))
                        except Exception as e:  # noqa: BLE001
                            v(f"exception.{type(e).__name__}", f"MaximumLikelihoodLoss on {nm}/{vn} ({lay}) raised {type(e).__name__}: {str(e)[:200]}", it)
                            continue
                        rec.count("ml_loss_comparisons")
                        rec.count(f"ml_layout[{lay}]")
                        if not np.isfinite(ref):
                            rec.count("ml_batches_with_rows_outside_support")
                        if not (got == ref if not np.isfinite(ref) else abs(got - ref) <= 1e-10 * (1 + abs(ref))):
                            v("ml.value", f"MaximumLikelihoodLoss({nm}/{vn}, {lay}: x {xs_}, condition {cs_ if cond else None}) = {got!r} but -mean(log_prob) over the "
                                          f"{lps.shape} batch = {ref!r}", it)
                    if vn != "plain":
                        rec.nontrivial.add(chash("ml", nm, vn, cond, rep, shard["shard"]))
        # ---------------------------------------------------------- ELBO / stick the landing -
        Z = {k_: f_ for k_, f_ in models(key, False).items() if k_ not in ("lognormal", "uniform")}
        for nm in Z:
            for vn, m in variants(Z[nm](), r).items():
                if not mine():
                    continue
                ns = int(r.choice([1, 2, 5, 16, 64]))
                k2 = jr.PRNGKey(int(r.integers(0, 2**31 - 1)))
                a = jnp.asarray(r.normal(size=3))
                target = lambda z: -0.5 * jnp.sum((z - a) ** 2) - 0.1 * jnp.sum(z**4)
                it = {"model": nm, "variant": vn, "loss": "elbo", "num_samples": ns, "rep": rep, "origin": "generated"}
                p, s = partition_trainable(m)
                rec.evals += 1
                try:
                    plain, gplain = eqx.filter_value_and_grad(ElboLoss(target, ns))(p, s, k2)
                    stl, gstl = eqx.filter_value_and_grad(ElboLoss(target, ns, stick_the_landing=True))(p, s, k2)
                    xs, lq = m.sample_and_log_prob(k2, (ns,))
                    ref = float(np.mean(f64(lq) - f64(jax.vmap(target)(xs))))
                    samples = jax.lax.stop_gradient(m.sample(k2, (ns,)))
                    score = eqx.filter_grad(lambda pp: eqx.combine(pp, s).log_prob(samples).mean())(p)
                except Exception as e:  # noqa: BLE001
                    v(f"exception.{type(e).__name__}", f"ElboLoss on {nm}/{vn} raised {type(e).__name__}: {str(e)[:200]}", it)
                    continue
                rec.count("elbo_value_comparisons")
                if not abs(float(plain) - ref) <= 1e-10 * (1 + abs(ref)):
                    v("elbo.value", f"ElboLoss({nm}/{vn}, n={ns}) = {float(plain)!r} but mean(log q - target) over sample_and_log_prob = {ref!r}", it)
                if not abs(float(stl) - float(plain)) <= 1e-9 * (1 + abs(ref)):
                    v("elbo.stl_value", f"stick-the-landing value {float(stl)!r} differs from the plain value {float(plain)!r} ({nm}/{vn}, n={ns})", it)
                gp, gs, sc = (jax.tree_util.tree_leaves(t) for t in (gplain, gstl, score))
                rec.count("stl_gradient_identity_leaves", len(gp))
                worst = 0.0
                for a_, b_, c_ in zip(gp, gs, sc):
                    d_ = f64(a_) - f64(b_) - f64(c_)
                    tol = 1e-6 * (1 + np.abs(f64(a_)) + np.abs(f64(c_)))
                    worst = max(worst, float(np.max(np.abs(d_) / tol)) if d_.size else 0.0)
                rec.maxi("stl_identity_err_over_tol", worst if np.isfinite(worst) else 0.0)
                if not worst <= 1.0:
                    v("elbo.stl_gradient", f"grad(plain) - grad(stick-the-landing) != mean score term (worst leaf error/tol {worst:.3g}) for {nm}/{vn}, n={ns}", it)
                score_norm = sum(float(np.abs(f64(c_)).sum()) for c_ in sc)
                if vn != "plain" and ns >= 2 and score_norm > 1e-6:
                    rec.nontrivial.add(chash("elbo", nm, vn, ns, rep, shard["shard"]))
                if len(rec.samples) < 2 and score_norm > 1e-3:
                    rec.samples.append(jsonable({"model": nm, "variant": vn, "num_samples": ns, "elbo": float(plain), "reference": ref, "stl": float(stl),
                                                 "score_term_l1": score_norm, "identity_err_over_tol": worst}))
        # ---------------------------------------------------------- contrastive ------------
        log = []

        def rec_cb(xt, ct):
            log.append((float(np.asarray(xt)), float(np.asarray(ct))))

        class Tag(AbstractDistribution):
            shape: tuple = (2,)
            cond_shape: tuple = (1,)
            w: jax.Array = None

            def _log_prob(self, x, condition=None):
                jax.debug.callback(rec_cb, x[0], condition[0])
                return -0.5 * jnp.sum((x * self.w - condition[0] * 0.01) ** 2)

            def _sample(self, key, condition=None):
                return jnp.zeros(self.shape)

        def check_contrastive(loss_of, n, nc, it, sharp=1.0, prior_scale=4.0):
            """one evaluation of a contrastive loss object on the tag distribution, checked against the recorded log_prob events;
            sharp > 1 scales the log-density so that logits of different rows differ by thousands of nats (the cross-entropy is
            still finite: the reference uses a stable logsumexp)"""
            k3 = jr.PRNGKey(int(r.integers(0, 2**31 - 1)))
            xt = np.arange(n, dtype=float) + 1.0
            x = jnp.asarray(np.stack([xt, 0.3 * xt - 1.0], 1))
            ct = 100.0 + np.arange(n, dtype=float)
            c = jnp.asarray(ct[:, None])
            wv = np.array([0.7, 1.3]) * sharp
            d = Tag(w=jnp.asarray(wv))
            p, s = partition_trainable(d)
            del log[:]
            rec.evals += 1
            try:
                got = float(loss_of(nc)(p, s, x, c, k3))
                jax.effects_barrier()
            except Exception as e:  # noqa: BLE001
                v(f"exception.{type(e).__name__}", f"ContrastiveLoss(batch {n}, n_contrastive {nc}) raised {type(e).__name__}: {str(e)[:200]}", it)
                return None
            rec.count("contrastive_evaluations")
            rec.count("contrastive_logprob_events", len(log))
            by_row = {}
            for xtag, ctag in log:
                by_row.setdefault(ctag, []).append(xtag)
            if set(by_row) != set(ct.tolist()):
                v("contrastive.rows", f"log_prob was evaluated for condition rows {sorted(by_row)}, expected every row {ct.tolist()}", it)
                return None
            lp_np = lambda xi, ci: -0.5 * np.sum((xi * wv - ci * 0.01) ** 2)
            prior_np = lambda xi: float(np.sum(-0.5 * (xi / prior_scale) ** 2 - np.log(prior_scale) - 0.5 * np.log(2 * np.pi)))
            xrow = {float(t): np.asarray(x)[i] for i, t in enumerate(xt)}
            losses = []
            for i in range(n):
                seen = by_row[float(ct[i])]
                own = float(xt[i])
                others = [t for t in seen if t != own]
                # (the row's own point may be evaluated more than once - e.g. once for the positive logit and once inside the normaliser;
                #  a contrastive set that contains the row itself shows below as fewer than n_contrastive distinct *other* rows)
                if seen.count(own) < 1:
                    v("contrastive.includes_self", f"row {i}: its own x is never evaluated; evaluated points {seen} (batch {n}, n_contrastive {nc})", it)
                    return None
                if seen.count(own) > 1:
                    rec.count("contrastive_rows_with_own_point_evaluated_repeatedly")
                if len(others) != nc or len(set(others)) != nc or not set(others) <= set(xt.tolist()):
                    v("contrastive.set", f"row {i}: contrastive set {sorted(others)} is not {nc} distinct other rows (batch {n})", it, {"seen": seen})
                    return None
                pos = lp_np(xrow[own], ct[i]) - prior_np(xrow[own])
                con = [lp_np(xrow[t], ct[i]) - prior_np(xrow[t]) for t in others]
                losses.append(-(pos - logsumexp(con + [pos])))
            ref = float(np.mean(losses))
            if sharp != 1.0:
                rec.count("contrastive_sharp_evaluations")
                rec.maxi("contrastive_largest_reference_loss", ref)
            if not abs(got - ref) <= 1e-10 * (1 + abs(ref)):
                v("contrastive.value", f"ContrastiveLoss = {got!r} but the softmax cross-entropy over the observed sets = {ref!r} (batch {n}, n_contrastive {nc})", it)
            if got < -1e-12:
                v("contrastive.negative", f"ContrastiveLoss = {got!r} < 0 (batch {n}, n_contrastive {nc})", it)
            return k3

        prior = D.Normal(jnp.zeros(2), jnp.full((2,), 4.0))
        for n in ([2, 3, 5, 8, 12, 16, 32] if rep % 2 == 0 else [4, 6, 7, 9, 17, 24]) if stride == 1 else [[2, 3], [5], [8, 16], [12], [4, 24], [6], [7, 17], [9, 32]][shard["shard"] % 8]:
            for nc in range(1, n):
                if n > 6 and nc not in (1, 2, 3, n // 8, n // 2, n - 2, n - 1):
                    continue
                it = {"loss": "contrastive", "batch": n, "n_contrastive": nc, "rep": rep, "origin": "generated"}
                k3 = check_contrastive(lambda nc_: ContrastiveLoss(prior, nc_), n, nc, it)
                if k3 is None:
                    continue
                if nc >= 1 and n >= 3:
                    rec.nontrivial.add(chash("con", n, nc, rep, shard["shard"]))
                # the index helper itself
                idx = np.asarray(_get_contrastive_idxs(k3, n, nc))
                rec.count("contrastive_index_checks")
                okidx = idx.shape == (n, nc) and all(len(set(row.tolist())) == nc and i not in row and row.min() >= 0 and row.max() < n for i, row in enumerate(idx))
                if not okidx:
                    v("contrastive.idxs", f"_get_contrastive_idxs(batch {n}, n {nc}) = {idx.tolist()} is not {nc} distinct other rows per row", it)
        # sharply peaked conditional estimate: some contrastive logit exceeds the row's own by far more than log(float max)
        for n, nc in [(5, 2), (8, 7), (4, 1)]:
            it = {"loss": "contrastive-sharp", "batch": n, "n_contrastive": nc, "rep": rep, "origin": "generated"}
            if check_contrastive(lambda nc_: ContrastiveLoss(prior, nc_), n, nc, it, sharp=30.0) is not None:
                rec.nontrivial.add(chash("consharp", n, nc, rep, shard["shard"]))
        # priors whose density at the batch points is far outside exp's range in either direction (a very concentrated prior: log
        # density down to -1e5 at the later rows; a very diffuse one: the ratio estimator's logits are then dominated by the prior
        # term): the loss is a difference of log-densities and stays an ordinary number
        for n, nc, ps in [(5, 2, 0.02), (8, 3, 0.005), (6, 5, 1e300)]:
            it = {"loss": "contrastive-extreme-prior", "batch": n, "n_contrastive": nc, "prior_scale": ps, "rep": rep, "origin": "generated"}
            pri = D.Normal(jnp.zeros(2), jnp.full((2,), ps))
            if check_contrastive(lambda nc_, _p=pri: ContrastiveLoss(_p, nc_), n, nc, it, prior_scale=ps) is not None:
                rec.count("contrastive_extreme_prior_evaluations")
                rec.nontrivial.add(chash("conprior", n, nc, ps, rep, shard["shard"]))
        # histories: ONE loss object evaluated on a sequence of batches of different sizes (what fit_to_data does: training
        # batches, then a validation batch of another size) - every evaluation must satisfy the same definition
        for nc in ([1, 3] if stride != 1 else [1, 2, 3, 6]):
            obj = ContrastiveLoss(prior, nc)
            sizes = [int(t) for t in r.permutation([16, 5, 8, 12, 4, 9, 7] if stride == 1 else [16, 5, 8, 4])]
            sizes = [t for t in sizes if t > nc] + [nc + 1]
            for step, n in enumerate(sizes):
                it = {"loss": "contrastive-history", "batch": n, "n_contrastive": nc, "history": sizes[:step], "rep": rep, "origin": "generated"}
                if check_contrastive(lambda nc_: obj, n, nc, it) is not None:
                    rec.count("contrastive_history_evaluations")
                    if step:
                        rec.nontrivial.add(chash("conhist", tuple(sizes[: step + 1]), nc, rep, shard["shard"]))
        # a real conditional flow: value against NumPy recomputation from the public log_prob and the helper's index sets
        for n, nc in [(5, 2), (8, 5)][: (2 if stride == 1 else (1 if shard["shard"] % 4 == 0 else 0))]:
            k3 = jr.PRNGKey(int(r.integers(0, 2**31 - 1)))
            flow = perturb(coupling_flow(key, base_dist=D.StandardNormal((3,)), cond_dim=2, flow_layers=2, nn_width=5), 0.3, 5)
            prior = D.Normal(jnp.zeros(3), jnp.full((3,), 2.0))
            x, c = jnp.asarray(r.normal(size=(n, 3))), jnp.asarray(r.normal(size=(n, 2)))
            p, s = partition_trainable(flow)
            it = {"loss": "contrastive-flow", "batch": n, "n_contrastive": nc, "rep": rep, "origin": "generated"}
            rec.evals += 1
            got = float(ContrastiveLoss(prior, nc)(p, s, x, c, k3))
            idx = np.asarray(_get_contrastive_idxs(k3, n, nc))
            lq = f64(jax.vmap(lambda ci: flow.log_prob(x, ci))(c))  # [i, j] = log q(x_j | c_i)
            lpri = f64(prior.log_prob(x))
            L = lq - lpri[None, :]
            ref = float(np.mean([-(L[i, i] - logsumexp(np.append(L[i, idx[i]], L[i, i]))) for i in range(n)]))
            rec.count("contrastive_flow_comparisons")
            if not abs(got - ref) <= 1e-9 * (1 + abs(ref)):
                v("contrastive.value", f"ContrastiveLoss on a conditional flow = {got!r}, recomputed softmax cross-entropy = {ref!r}", it)
            rec.nontrivial.add(chash("conflow", n, nc, rep, shard["shard"]))
    out = rec.result()
    if not shard.get("replay"):
        out["required"] = {k: rec.counters.get(k, 0) for k in ("ml_loss_comparisons", "elbo_value_comparisons", "stl_gradient_identity_leaves",
                                                               "contrastive_logprob_events", "contrastive_index_checks", "contrastive_history_evaluations")}
    return out
