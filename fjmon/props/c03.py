"""C03 - transformed densities obey change of variables on both evaluation paths.

Reference-model monitor over the distribution's own public parts: log_prob(x) is compared with
base.log_prob(z) + log-det where (z, log-det) = bijection.inverse_and_log_det(x) (each called through its public
method, the condition passed only to the conditional part); sample(key) with bijection.transform(base.sample(key));
sample_and_log_prob(key) with sample(key) and with log_prob evaluated at the returned sample; merge_transforms
must not change anything.  The parts themselves are decided by C01/C02/C05."""
from __future__ import annotations

import numpy as np

from fjmon import distgen

PROPERTY = "C03"
LEVEL = "exploration"
NEEDS_SHIM = True
RULE = ("distributions = Transformed(base, b) for every R->R leaf/combinator structure in both orientations with bases {StandardNormal, "
        "Normal, StudentT, Cauchy, Laplace, Logistic, Gumbel}; harness-defined conditional base x (un)conditional bijection and vice "
        "versa; a conditional flow as base; all five flow factories x invert x cond x transformer; 2-3 levels of nested Transformed; "
        "random trees; x parameter modes (init, sigma 0.5, 1.5) x 40 points/keys x conditions. A case = (distribution, parameter draw, "
        "point or key, clause); non-trivial = |log-det| > 1e-3 (a sign flip or a dropped log-det is visible); distinct_nontrivial "
        "counts up to 8 hashed representatives per (distribution, parameter draw)")
ASSUMPTIONS = [
    "clauses (a) log_prob and (b) sample compare two executions of the same arithmetic: tolerance 1e-9 (1+|value|)",
    "clause (c) log_prob(sample) vs joint log-prob crosses a round trip: tolerance 1e3 eps x finite-difference sensitivity of log_prob "
    "at the sample (+1e-5 x sensitivity when a bisection search is on the path), gated above 1e-3",
    "the factory orientation (which direction is cheap) is recorded, not judged",
]
ANCHOR_FILES = ["distributions.py", "flows.py", "bijections/utils.py"]
REQUIRED_FUNCS = ["distributions.py:AbstractTransformed._log_prob", "distributions.py:AbstractTransformed._sample",
                  "distributions.py:AbstractTransformed._sample_and_log_prob", "distributions.py:AbstractTransformed.merge_transforms",
                  "distributions.py:AbstractTransformed.__check_init__", "flows.py:coupling_flow", "flows.py:masked_autoregressive_flow",
                  "flows.py:block_neural_autoregressive_flow", "flows.py:planar_flow", "flows.py:triangular_spline_flow",
                  "flows.py:_add_default_permute", "bijections/utils.py:Invert.inverse_and_log_det"]


def extra_items():
    """Conditional-base / nested structures (built in build_extra)."""
    out = []
    for i, k in enumerate(["condbase_uncond_bij", "condbase_cond_bij", "uncondbase_cond_bij", "flow_as_base", "nested3", "nested_cond_mix",
                           "condbase_scalar", "flow_base_inverted_top"]):
        out.append({"kind": "extra", "which": k, "bseed": 7000 + i, "origin": "extra", "base": "n/a"})
    return out


def plan(tier, seed):
    items = distgen.dist_items(tier, seed) + extra_items()
    nsh = 16
    groups = [[] for _ in range(nsh)]
    loads = [0.0] * nsh
    from fjmon.props.c18 import _cost

    for it in sorted(items, key=lambda it: -(_cost(it) if it["kind"] != "extra" else 4)):
        j = int(np.argmin(loads))
        groups[j].append(it)
        loads[j] += _cost(it) if it["kind"] != "extra" else 4
    return [{"name": f"C03-{i}", "shard": i, "items": g, "x64": True, "timeout": 3400} for i, g in enumerate(groups)]


def build_extra(which, key):
    import equinox as eqx
    import jax
    import jax.numpy as jnp
    import jax.random as jr
    import flowjax.bijections as B
    from flowjax.distributions import AbstractDistribution, Normal, StandardNormal, StudentT, Transformed
    from flowjax.flows import coupling_flow, masked_autoregressive_flow
    from jax.scipy import stats as jstats

    ks = jr.split(key, 8)

    class CondNormal(AbstractDistribution):
        """Harness-defined conditional base: Normal(W c, 1.3)."""
        shape: tuple
        cond_shape: tuple
        W: jax.Array

        def _loc(self, c):
            return (self.W @ jnp.ravel(c)).reshape(self.shape)

        def _log_prob(self, x, condition=None):
            return jstats.norm.logpdf(x, self._loc(condition), 1.3).sum()

        def _sample(self, key, condition=None):
            return self._loc(condition) + 1.3 * jr.normal(key, self.shape)

    class Lin(eqx.Module):
        W: jax.Array
        shape: tuple = eqx.field(static=True)

        def __call__(self, c):
            return (self.W @ jnp.ravel(c)).reshape(self.shape)

    d, cd = 3, 2
    aff = lambda k: B.Affine(jr.normal(k, (d,)), jnp.exp(0.6 * jr.normal(jr.fold_in(k, 1), (d,))))
    tri = lambda k: B.TriangularAffine(jr.normal(k, (d,)), jnp.eye(d) * 1.7 + 0.4 * jr.normal(jr.fold_in(k, 2), (d, d)))
    if which == "condbase_uncond_bij":
        return Transformed(CondNormal((d,), (cd,), jr.normal(ks[0], (d, cd))), B.Chain([aff(ks[1]), B.LeakyTanh(1.0, (d,)), tri(ks[2])]))
    if which == "condbase_cond_bij":
        return Transformed(CondNormal((d,), (cd,), jr.normal(ks[0], (d, cd))),
                           B.Chain([aff(ks[1]), B.AdditiveCondition(Lin(jr.normal(ks[3], (d, cd)), (d,)), (d,), (cd,)), tri(ks[2])]))
    if which == "uncondbase_cond_bij":
        return Transformed(StudentT(jnp.full((d,), 4.0), jnp.zeros(d), jnp.ones(d)),
                           B.Chain([B.MaskedAutoregressive(ks[0], transformer=B.Affine(), dim=d, cond_dim=cd, nn_width=5, nn_depth=1), aff(ks[1])]))
    if which == "flow_as_base":
        base = coupling_flow(ks[0], base_dist=StandardNormal((d,)), cond_dim=cd, flow_layers=2, nn_width=5)
        return Transformed(base, B.Chain([tri(ks[1]), B.Invert(aff(ks[2]))]))
    if which == "nested3":
        return Transformed(Transformed(Transformed(Normal(jnp.zeros(d), jnp.full((d,), 0.7)), aff(ks[0])), B.Chain([B.Permute(jnp.array([2, 0, 1])), B.LeakyTanh(2.0, (d,))])), tri(ks[1]))
    if which == "nested_cond_mix":
        inner = Transformed(CondNormal((d,), (cd,), jr.normal(ks[0], (d, cd))), aff(ks[1]))
        mid = Transformed(inner, B.Coupling(ks[2], transformer=B.RationalQuadraticSpline(knots=4, interval=3), untransformed_dim=1, dim=d, cond_dim=cd, nn_width=5, nn_depth=1))
        return Transformed(mid, B.Invert(tri(ks[3])))
    if which == "condbase_scalar":
        return Transformed(CondNormal((), (), jnp.asarray([[0.8]])), B.Chain([B.Affine(0.4, 2.5), B.RationalQuadraticSpline(knots=5, interval=4)]))
    if which == "flow_base_inverted_top":
        base = masked_autoregressive_flow(ks[0], base_dist=StandardNormal((d,)), flow_layers=2, nn_width=5, invert=False,
                                          transformer=B.RationalQuadraticSpline(knots=4, interval=3))
        return Transformed(base, B.Invert(B.Chain([aff(ks[1]), B.Planar(ks[2], dim=d, negative_slope=0.3)])))
    raise KeyError(which)


def run_shard(shard):
    import equinox as eqx
    import jax
    import jax.numpy as jnp
    import jax.random as jr
    from flowjax.distributions import AbstractTransformed
    from fjmon import bijbundle as BB
    from fjmon import env
    from fjmon.bijcheck import Recorder
    from fjmon.common import chash, jsonable, perturb

    rec = Recorder(shard, "C03")
    rng = np.random.default_rng([shard["seed"], 3, shard.get("shard", 0)])
    eps = 2.220446049250313e-16
    modes = [tuple(shard["only_mode"])] if shard.get("only_mode") else [("init", 0.0), ("sigma", 0.5), ("sigma", 1.5)]
    NP, NK = 40, 24

    def make_fns(d):
        bc = d.bijection.cond_shape is not None
        dc = d.base_dist.cond_shape is not None
        anyc = d.cond_shape is not None

        def lp_parts(dd, x, c):
            z, ld = dd.bijection.inverse_and_log_det(x, c if bc else None)
            return dd.base_dist.log_prob(z, c if dc else None), ld, z

        def samp_parts(dd, key, c):
            b = dd.base_dist.sample(key, (), c if dc else None)
            return dd.bijection.transform(b, c if bc else None), b

        def points_bundle(dd, x, c):
            blp, ld, z = lp_parts(dd, x, c)
            return {"lp": dd.log_prob(x, c), "blp": blp, "ld": ld}

        def keys_bundle(dd, key, c):
            out = {"s": dd.sample(key, (), c)}
            out["sref"], out["bsamp"] = samp_parts(dd, key, c)
            out["s2"], out["lp2"] = dd.sample_and_log_prob(key, (), c)
            if has_inv_flag[0]:
                s2 = out["s2"]
                out["lps"] = dd.log_prob(s2, c)
                out["lps_p"] = dd.log_prob(s2 * (1 + 1e-10) + 1e-12, c)
                out["z2"] = lp_parts(dd, s2, c)[2]
            return out

        def vm(f):
            def g(dd, a, cs):
                if anyc:
                    return jax.vmap(lambda u, w: f(dd, u, w))(a, cs)
                return jax.vmap(lambda u: f(dd, u, None))(a)
            return eqx.filter_jit(g)

        return {"points": vm(points_bundle), "keys": vm(keys_bundle), "lp": vm(lambda dd, x, c: dd.log_prob(x, c))}

    has_inv_flag = [True]

    for it in shard["items"]:
        try:
            if it["kind"] == "extra":
                d0 = build_extra(it["which"], jr.PRNGKey(it["bseed"]))
                meta = {"shape": d0.shape, "cond_shape": d0.cond_shape, "crit0": {}, "ops": ["extra:" + it["which"]], "name": "extra:" + it["which"],
                        "planar": "inverted_top" in it["which"], "logprob_numeric": False, "sample_numeric": False}
            else:
                d0, meta = distgen.build_dist(it, jr.PRNGKey(it["bseed"]))
        except Exception as e:  # noqa: BLE001
            if not env.shim_ok():
                rec.inconclusive.append("structure not buildable without shim")
                continue
            rec.violation(f"build.{type(e).__name__}", f"constructor raised {type(e).__name__}: {str(e)[:200]}", it, ("init", 0.0), {})
            continue
        rec.count("distributions")
        rec.count("origin_" + it["origin"])
        for o in meta["ops"]:
            rec.count("op_" + o)
        has_fwd = True
        if it["kind"] == "tspec":
            from fjmon import specs as S

            sp = it["spec"]
            has_fwd = S.forward_ok(sp) if it["orient"] == "as_is" else S.invertible(sp)
            has_inv = S.invertible(sp) if it["orient"] == "as_is" else S.forward_ok(sp)
        elif it["kind"] == "flow":
            from fjmon import flowgen

            c = it["case"]
            inv_ok = flowgen.flow_invertible(c)
            has_fwd = inv_ok or not c["invert"]
            has_inv = inv_ok or c["invert"]
        else:
            has_inv = True
        has_inv_flag[0] = bool(has_inv)
        fns = make_fns(d0)
        fragile = it["kind"] == "tspec" and any(o in ("transformer:Affine", "transformer:Scale") for o in meta["ops"])
        numeric = bool(meta.get("logprob_numeric") or meta.get("sample_numeric"))
        z0 = np.zeros(meta["shape"], dtype=int)
        for mode in modes:
            if mode[1] > 0.5 and (meta["planar"] or fragile):
                mode = (mode[0], 0.5)  # see C18: unrepresentable planar constraint / unbounded-scale conditioner collapse
            d = d0 if mode[0] == "init" else perturb(d0, mode[1], it["bseed"] + int(mode[1] * 1000), clip=8.0)
            crit = {k: list(v) for k, v in meta["crit0"].items()}
            xs, _, _ = BB.make_points(z0, crit, rng, np.float64, n_rand=24, n_crit=12, n_big=4, big=1e3)
            xs = xs[:NP]
            cs = None if meta["cond_shape"] is None else jnp.asarray(rng.standard_normal((len(xs), *meta["cond_shape"])))
            base_h = chash(it.get("spec") or it.get("case") or it.get("which"), it.get("orient"), it["bseed"], list(mode))

            def viol(mech, msg, detail):
                rec.violation(mech, f"{meta['name']} [{mode}]: {msg}", it, mode, detail)

            # ---------------- (a) log_prob = base log-density at the inverse image + inverse log-det
            if has_inv:
                try:
                    P = {k: np.asarray(v, dtype=np.float64) for k, v in fns["points"](d, jnp.asarray(xs), cs).items()}
                    lp, blp, ld = P["lp"], P["blp"], P["ld"]
                except Exception as e:  # noqa: BLE001
                    viol(f"exception.{type(e).__name__}", f"log_prob path raised {type(e).__name__}: {str(e)[:250]}", {})
                    continue
                N = len(xs)
                rec.evals += N
                ref = blp + ld
                ref = np.where(np.isnan(ref), -np.inf, ref)  # the public log_prob maps NaN to -inf (C05/C18)
                fin = np.isfinite(ref) & np.isfinite(lp)
                tol = 1e-9 * (1 + np.abs(ref))
                if numeric:
                    tol = tol + 1e-4 * (1 + np.abs(ref))  # two runs of the search may end on either side of the root
                both_inf = np.isneginf(ref) & np.isneginf(lp)
                bad = ~both_inf & ~(np.abs(lp - ref) <= tol)
                rec.count("logprob_clause_compared", int(fin.sum()))
                rec.maxi("logprob_err_over_tol", np.max(np.where(fin & ~bad, np.abs(lp - ref) / tol, 0)) if N else 0)
                if bad.any():
                    i = int(np.where(bad)[0][0])
                    viol("change_of_variables.log_prob", f"log_prob(x)={lp[i]!r} but base.log_prob(z)+log-det = {blp[i]!r} + {ld[i]!r} = {ref[i]!r} at x={xs[i].tolist()} "
                                                         f"({int(bad.sum())} of {N} points)", {"x": xs[i], "log_prob": lp[i], "base_log_prob": blp[i], "log_det": ld[i],
                                                                                              "condition": None if cs is None else np.asarray(cs[i])})
                nt = fin & (np.abs(ld) > 1e-3)
                rec.count("nontrivial_cases_total", int(nt.sum()))
                for i in np.where(nt)[0][:: max(1, int(nt.sum()) // 8)][:8]:
                    rec.nontrivial.add(chash(base_h, "lp", int(i)))
                if len(rec.samples) < 3 and nt.any() and it["origin"] in ("flow", "extra"):
                    i = int(np.where(nt)[0][0])
                    rec.samples.append(jsonable({"distribution": meta["name"], "param_mode": mode, "x": xs[i], "log_prob": lp[i],
                                                 "base_log_prob_at_inverse_image": blp[i], "inverse_log_det": ld[i]}))
            # ---------------- (a') the distribution methods cast their inputs to floating point: integer-valued points handed over
            # as integer arrays have the log_prob of the same numbers (the bijections underneath write into / loop over x)
            if has_inv and not numeric and mode[1] == 0.5:
                for _ in range(2):
                    xi = rng.integers(-3, 4, size=meta["shape"])
                    ci = None if cs is None else cs[0]
                    try:
                        l_f = float(d.log_prob(jnp.asarray(xi, dtype=float), ci))
                        l_i = float(d.log_prob(jnp.asarray(xi, dtype=int), ci))
                        l_n = float(d.log_prob(np.asarray(xi, dtype=np.int32), ci))
                    except Exception as e:  # noqa: BLE001
                        viol(f"exception.{type(e).__name__}", f"log_prob of an integer-typed x raised {type(e).__name__}: {str(e)[:200]}", {"x": xi})
                        break
                    rec.evals += 1
                    rec.count("integer_typed_logprob_calls")
                    same = lambda a, b_: (a == b_) or (np.isnan(a) and np.isnan(b_)) or abs(a - b_) <= 1e-9 * (1 + abs(b_))
                    if not (same(l_i, l_f) and same(l_n, l_f)):
                        viol("change_of_variables.integer_input", f"log_prob of the integer array {np.asarray(xi).tolist()} is {l_i!r} (NumPy int32: {l_n!r}) but {l_f!r} for the same "
                                                                  f"numbers as floats", {"x": xi})
                        break
            # ---------------- (b), (c) sampling paths
            if not has_fwd:
                rec.count("sampling_not_implemented")
                continue
            keys = jr.split(jr.PRNGKey(int(rng.integers(0, 2**31 - 1))), NK)
            ck = None if cs is None else cs[:NK]
            try:
                Kb = {k: np.asarray(v, dtype=np.float64) for k, v in fns["keys"](d, keys, ck).items()}
                s, sref, bsamp, s2, lp2 = Kb["s"], Kb["sref"], Kb["bsamp"], Kb["s2"], Kb["lp2"]
            except Exception as e:  # noqa: BLE001
                viol(f"exception.{type(e).__name__}", f"sampling path raised {type(e).__name__}: {str(e)[:250]}", {})
                continue
            rec.evals += NK
            am = lambda a: np.abs(a.reshape(NK, -1)).max(1) if a.size else np.zeros(NK)
            stol = 1e-9 * (1 + am(sref)) + (1e-4 * (1 + am(sref)) if numeric else 0)
            finite_s = np.isfinite(sref.reshape(NK, -1)).all(1)
            bad = finite_s & ~(am(np.where(np.isfinite(s - sref), s - sref, np.inf)) <= stol)
            rec.count("sample_clause_compared", int(finite_s.sum()))
            if bad.any():
                i = int(np.where(bad)[0][0])
                viol("change_of_variables.sample", f"sample(key)={s[i].tolist()} but bijection.transform(base.sample(key))={sref[i].tolist()}",
                     {"key_index": i, "sample": s[i], "reference": sref[i]})
            bad = finite_s & ~(am(np.where(np.isfinite(s2 - s), s2 - s, np.inf)) <= stol)
            if bad.any():
                i = int(np.where(bad)[0][0])
                viol("joint.sample", f"sample_and_log_prob(key) returned sample {s2[i].tolist()} but sample(key) = {s[i].tolist()}", {"key_index": i})
            if has_inv:
                lps, lps_p, z2 = Kb["lps"], Kb["lps_p"], Kb["z2"]
                dx = 1e-10 * am(s2) + 1e-12
                sens = np.abs(lps_p - lps) / dx
                sens = np.where(np.isfinite(sens), sens, np.inf)
                jt = 1e3 * eps * (1 + sens) * (1 + am(s2)) + 1e-9 * (1 + np.abs(lp2))
                if numeric:
                    jt = jt + 1e-5 * (1 + sens) + 1e-4 * (1 + np.abs(lp2))
                # the clause presupposes that the round trip sample -> inverse -> base sample holds (C01, conditioning)
                rt = am(np.where(np.isfinite(z2 - bsamp), z2 - bsamp, np.inf)) <= 1e-6 * (1 + am(bsamp))
                rec.count("joint_logprob_gated_roundtrip_ill_conditioned", int((finite_s & ~rt).sum()))
                # a failed round trip does not excuse the clause by itself (a wrong inverse on a well-conditioned map is exactly what
                # makes log_prob(sample) differ from the joint value): such points stay in when log_prob is demonstrably insensitive at
                # the sample (finite-difference estimate `sens`), with a tenfold tolerance
                jt = np.where(rt, jt, 10 * jt + 1e-6 * (1 + np.abs(lp2)))
                ok = finite_s & np.isfinite(lp2) & np.isfinite(lps) & (jt < 1e-3 * (1 + np.abs(lp2)))
                rec.count("joint_logprob_compared_despite_failed_roundtrip", int((ok & ~rt).sum()))
                # a joint log-probability that is NaN / +-inf although log_prob of the very same (finite, well-conditioned) sample is
                # finite cannot be the log-density of that sample
                rt0 = am(np.where(np.isfinite(z2 - bsamp), z2 - bsamp, np.inf)) <= 1e-6 * (1 + am(bsamp))
                nf = finite_s & rt0 & np.isfinite(lps) & ~np.isfinite(lp2) & (np.abs(lps) < 1e8)
                rec.count("joint_logprob_finiteness_compared", int((finite_s & rt0 & np.isfinite(lps)).sum()))
                if nf.any():
                    i = int(np.where(nf)[0][0])
                    viol("joint.log_prob_nonfinite", f"sample_and_log_prob returned log-prob {lp2[i]!r} but log_prob(sample)={lps[i]!r} is finite "
                                                     f"({int(nf.sum())} of {NK} keys)", {"key_index": i, "sample": s2[i], "joint_log_prob": lp2[i], "log_prob_of_sample": lps[i]})
                err = np.abs(lp2 - lps)
                bad = ok & (err > jt)
                rec.count("joint_logprob_clause_compared", int(ok.sum()))
                rec.count("joint_logprob_gated_ill_conditioned", int((finite_s & ~ok).sum()))
                rec.maxi("joint_err_over_tol", np.max(np.where(ok & ~bad, err / jt, 0)) if NK else 0)
                if bad.any():
                    i = int(np.where(bad)[0][np.argmax((err / jt)[bad])])
                    viol("joint.log_prob", f"sample_and_log_prob returned log-prob {lp2[i]!r} but log_prob(sample)={lps[i]!r} (diff {err[i]:.3g}, tol {jt[i]:.3g}) "
                                           f"at sample {s2[i].tolist()}", {"key_index": i, "sample": s2[i], "joint_log_prob": lp2[i], "log_prob_of_sample": lps[i]})
                for i in np.where(ok)[0][:4]:
                    rec.nontrivial.add(chash(base_h, "joint", int(i)))
            # ---------------- (d) merge_transforms
            if isinstance(d.base_dist, AbstractTransformed) and mode[0] == "init":
                try:
                    m = d.merge_transforms()
                    lpm = np.asarray(eqx.filter_jit(lambda dd, a, cc: jax.vmap(lambda u, w: dd.log_prob(u, w))(a, cc) if cc is not None else jax.vmap(lambda u: dd.log_prob(u))(a))(m, jnp.asarray(xs), cs), dtype=np.float64)
                    rec.count("merge_transforms_checked")
                    if not np.allclose(lpm, lp, rtol=1e-9, atol=1e-9, equal_nan=True):
                        viol("merge_transforms", f"merge_transforms changed log_prob (max diff {np.nanmax(np.abs(lpm - lp)):.3g})", {})
                except Exception as e:  # noqa: BLE001
                    viol(f"exception.{type(e).__name__}", f"merge_transforms raised {type(e).__name__}: {str(e)[:200]}", {})
    out = rec.result()
    if not shard.get("replay"):
        out["required"] = {k: rec.counters.get(k, 0) for k in ("logprob_clause_compared", "sample_clause_compared", "joint_logprob_clause_compared")}
    return out
