"""C16 - training loops stop and select parameters as documented.

History monitor: the real fit_to_data / fit_to_variational_target are driven by a scripted
loss (value = table[counter]) and a counting optimiser (every update is +1), so the
parameter version seen by every loss call and carried by the returned model is observable.
The recorded history (ordered host callbacks at the user-loss boundary + the returned
(model, losses)) is checked against a small sequential model written from the docstrings.
"""
from __future__ import annotations

import itertools
import math

import numpy as np

PROPERTY = "C16"
LEVEL = "exploration"
RULE = ("every permutation of distinct validation/step losses of length L (exhaustive up to the "
        "tier's L, seeded sample above) x max_patience 0..L x max_epochs|steps 0..L x return_best x "
        "train-batches-per-epoch B; a case is a (loop, script, max_epochs, max_patience, return_best, B) "
        "tuple; non-trivial = at least 2 epochs/steps actually run, so that stopping and selection are "
        "not vacuous; distinct = distinct tuples (set-counted)")
ASSUMPTIONS = [
    "loss scripts use pairwise distinct values (the statement is for distinct losses; ties are not generated)",
    "the counting optimiser (+1 per update) and the scripted loss are harness objects passed through the "
    "documented loss_fn/optimizer arguments; the loops themselves are the unmodified working-tree code",
]
ANCHOR_FILES = ["train/data_fit.py", "train/variational_fit.py", "train/train_utils.py"]
REQUIRED_FUNCS = ["train/data_fit.py:fit_to_data", "train/variational_fit.py:fit_to_variational_target",
                  "train/train_utils.py:step", "train/train_utils.py:count_fruitless"]

PAD = 24  # table length (max counter reachable = B*L <= 2*8)


def plan(tier, seed):
    if tier == "thorough":
        exhaustive_L, sample_L, n_sample, nsh = 7, [8], 1500, 32
    else:
        exhaustive_L, sample_L, n_sample, nsh = 5, [6, 7], 160, 16
    return [{"name": f"C16-{i}", "shard": i, "nshards": nsh, "exhaustive_L": exhaustive_L,
             "sample_L": sample_L, "n_sample": n_sample, "x64": True, "timeout": 3000}
            for i in range(nsh)]


# ------------------------------------------------------------------ sequential models ----
def model_fit_to_data(val_script, max_epochs, max_patience, return_best, B):
    """Written from the fit_to_data docstring / property statement (not from the code)."""
    val = []
    ran = 0
    for e in range(max_epochs):
        ran = e + 1
        val.append(val_script[e])
        since_best = e - int(np.argmin(val))
        if since_best > max_patience:
            break
    if return_best and ran > 0:
        ret = B * (int(np.argmin(val)) + 1)  # parameters after the epoch with the min val loss
    elif return_best:
        ret = 0
    else:
        ret = B * ran
    return ran, ret, val


def model_vi(script, steps, return_best):
    losses = list(script[:steps])
    if return_best and steps > 0:
        ret = int(np.argmin(losses))  # parameters at which the minimum loss was evaluated
    else:
        ret = steps
    return ret, losses


def _scripts(shard):
    """Yield (L, perm) for this shard: exhaustive for L<=exhaustive_L, seeded sample above."""
    idx = 0
    for L in range(1, shard["exhaustive_L"] + 1):
        for perm in itertools.permutations(range(1, L + 1)):
            if idx % shard["nshards"] == shard["shard"]:
                yield L, perm, True
            idx += 1
    rng = np.random.default_rng([shard["seed"], 16, shard["shard"]])
    for L in shard["sample_L"]:
        for _ in range(max(1, shard["n_sample"] // shard["nshards"])):
            yield L, tuple(int(v) for v in rng.permutation(L) + 1), False


def run_shard(shard):
    import equinox as eqx
    import jax
    import jax.numpy as jnp
    import jax.random as jr
    import optax
    from flowjax.train import fit_to_data, fit_to_variational_target
    from flowjax.wrappers import NonTrainable

    events = []

    def rec(c):
        events.append(int(c))

    def counting_opt():
        return optax.GradientTransformation(
            lambda p: (),
            lambda g, s, params=None: (jax.tree_util.tree_map(jnp.ones_like, g), s),
        )

    class Model(eqx.Module):
        counter: jax.Array
        table: NonTrainable

    @eqx.filter_jit
    def vloss(params, static, key):
        m = eqx.combine(params, static)
        t = m.table.tree
        jax.debug.callback(rec, m.counter, ordered=True)
        return t[jnp.clip(m.counter.astype(int), 0, t.shape[0] - 1)] + 0.0 * m.counter

    @eqx.filter_jit
    def dloss(params, static, x, condition=None, key=None):
        m = eqx.combine(params, static)
        t = m.table.tree
        jax.debug.callback(rec, m.counter, ordered=True)
        return t[jnp.clip(m.counter.astype(int), 0, t.shape[0] - 1)] + 0.0 * m.counter + 0.0 * x.sum()

    opt = counting_opt()
    x = jnp.arange(10.0)[:, None]
    only = shard.get("only")
    cases = set()
    nontrivial = set()
    violations = []
    samples = []
    counters = {"fit_to_data_runs": 0, "vi_runs": 0, "loss_call_events": 0, "early_stops_observed": 0,
                "return_best_selected_non_last": 0, "exhaustive_scripts": 0, "sampled_scripts": 0}

    def table_for(val_script, B):
        tab = 100.0 + np.arange(PAD, dtype=float)  # filler: distinct, larger than any scripted value
        for e, v in enumerate(val_script):
            tab[B * (e + 1)] = float(v)
        return tab

    def violation(mech, summary, case):
        violations.append({"mechanism": mech, "summary": summary, "case": case,
                           "replay": dict(shard, only=case, name="replay")})

    def run_data(perm, me, pat, rb, B):
        case = {"loop": "fit_to_data", "script": list(perm), "max_epochs": me, "max_patience": pat,
                "return_best": rb, "B": B}
        tab = table_for(perm, B)
        m = Model(jnp.array(0.0), NonTrainable(jnp.asarray(tab)))
        del events[:]
        bs = 100 if B == 1 else 4  # 8 training rows -> 1 or 2 batches; 2 validation rows -> 1 batch
        out, losses = fit_to_data(jr.PRNGKey(0), m, x, loss_fn=dloss, max_epochs=me, max_patience=pat,
                                  batch_size=bs, val_prop=0.2, optimizer=opt, return_best=rb,
                                  show_progress=False)
        jax.effects_barrier()
        counters["fit_to_data_runs"] += 1
        counters["loss_call_events"] += len(events)
        ran, ret, val = model_fit_to_data(list(map(float, perm)) + [1e3] * PAD, me, pat, rb, B)
        got_val = [float(v) for v in losses["val"]]
        got_train = [float(v) for v in losses["train"]]
        exp_train = [float(np.mean([tab[B * e + j] for j in range(B)])) for e in range(ran)]
        exp_events = []
        for e in range(ran):
            exp_events += [B * e + j for j in range(B)] + [B * (e + 1)]
        got_ret = float(out.counter)
        key = ("d", perm, me, pat, rb, B)
        cases.add(key)
        if ran >= 2:
            nontrivial.add(key)
        if ran < me:
            counters["early_stops_observed"] += 1
        if rb and ret != B * ran:
            counters["return_best_selected_non_last"] += 1
        obs = {"epochs_run": len(got_val), "val": got_val, "train": got_train, "returned_counter": got_ret,
               "loss_call_counters": list(events)}
        exp = {"epochs_run": ran, "val": val, "train": exp_train, "returned_counter": ret,
               "loss_call_counters": exp_events}
        case_full = dict(case, observed=obs, expected=exp)
        if len(got_val) != ran or len(got_train) != ran:
            why = "stopped early" if len(got_val) < ran else "ran too long"
            violation("data.epochs_run", f"fit_to_data {why}: ran {len(got_val)} epochs, documented {ran}; {case}", case_full)
        elif got_val != val or not np.allclose(got_train, exp_train, rtol=1e-12, atol=0):
            violation("data.losses", f"recorded losses differ from the scripted ones: {got_val} vs {val}; {case}", case_full)
        elif list(events) != exp_events:
            violation("data.trace", f"loss-call history {list(events)} != documented {exp_events}; {case}", case_full)
        elif got_ret != ret:
            violation("data.returned_params", f"returned parameter version {got_ret}, documented {ret}; {case}", case_full)
        if len(samples) < 2 and ran >= 3 and ran < me:
            samples.append(case_full)

    def run_vi(perm, steps, rb):
        case = {"loop": "fit_to_variational_target", "script": list(perm), "steps": steps, "return_best": rb}
        tab = 100.0 + np.arange(PAD, dtype=float)
        tab[: len(perm)] = perm
        m = Model(jnp.array(0.0), NonTrainable(jnp.asarray(tab)))
        del events[:]
        out, losses = fit_to_variational_target(jr.PRNGKey(0), m, vloss, steps=steps, optimizer=opt,
                                                return_best=rb, show_progress=False)
        jax.effects_barrier()
        counters["vi_runs"] += 1
        counters["loss_call_events"] += len(events)
        ret, exp_losses = model_vi(list(map(float, perm)), steps, rb)
        got_ret = float(out.counter)
        key = ("v", perm, steps, rb)
        cases.add(key)
        if steps >= 2:
            nontrivial.add(key)
        if rb and ret != steps:
            counters["return_best_selected_non_last"] += 1
        obs = {"losses": [float(v) for v in losses], "returned_counter": got_ret, "loss_call_counters": list(events)}
        exp = {"losses": exp_losses, "returned_counter": ret, "loss_call_counters": list(range(steps))}
        case_full = dict(case, observed=obs, expected=exp)
        if len(losses) != steps or list(events) != list(range(steps)):
            violation("vi.steps", f"performed {len(events)} loss evaluations / recorded {len(losses)} losses for steps={steps}; {case}", case_full)
        elif obs["losses"] != exp_losses:
            violation("vi.losses", f"recorded {obs['losses']} vs scripted {exp_losses}; {case}", case_full)
        elif got_ret != ret:
            mech = "vi.returned_params"
            violation(mech, f"returned parameter version {got_ret}, documented {ret} "
                            f"(losses {exp_losses}); {case}", case_full)
        if len(samples) < 4 and steps >= 3 and rb:
            samples.append(case_full)

    def dispatch(t):
        if t[0] == "d":
            run_data(*t[1:])
        else:
            run_vi(*t[1:])

    if only is not None:
        # a run may depend on the calls made before it in the same process (state kept between calls would be a violation of
        # "for any sequence of losses"): the replay repeats the recorded predecessors first
        for t in only.get("preceding_runs", []):
            dispatch(tuple(tuple(a) if isinstance(a, list) else a for a in t))
        del violations[:]
        perm = tuple(only["script"])
        if only["loop"] == "fit_to_data":
            run_data(perm, only["max_epochs"], only["max_patience"], only["return_best"], only["B"])
        else:
            run_vi(perm, only["steps"], only["return_best"])
    else:
        tasks = []
        for L, perm, exhaustive in _scripts(shard):
            counters["exhaustive_scripts" if exhaustive else "sampled_scripts"] += 1
            for rb in (True, False):
                for me in range(0, L + 1):
                    for pat in range(0, L + 1):
                        for B in ((1, 2) if (L <= 4 or shard.get("tier") == "thorough") else (1,)):
                            tasks.append(("d", perm, me, pat, rb, B))
                    tasks.append(("v", perm, me, rb))
        # hostile order: runs of different scripts, lengths, patience and loops interleaved at random (every run is judged on
        # its own; anything carried over from an earlier call in the process would show up as a deviation here)
        order = np.random.default_rng([shard["seed"], 16, shard["shard"]]).permutation(len(tasks))
        recent = []
        for j in order:
            n0 = len(violations)
            dispatch(tasks[j])
            for vv in violations[n0:]:
                vv["case"]["preceding_runs"] = [list(t) for t in recent[-4:]]
                vv["replay"]["only"] = vv["case"]
            recent.append(tasks[j])
            counters["runs_in_shuffled_order"] = counters.get("runs_in_shuffled_order", 0) + 1

    return {"evaluations": len(cases), "nontrivial": len(nontrivial), "samples": samples,
            "counters": counters, "violations": violations,
            "required": {"loss_call_events": counters["loss_call_events"],
                         "early_stops_observed": counters["early_stops_observed"],
                         "return_best_selected_non_last": counters["return_best_selected_non_last"]}}
