"""C08 - combinators mean what their definitions say, for every shape and axis.

Reference-model monitor: a small batched NumPy interpreter implements the *definitions* of Chain, Scan, Vmap,
Concatenate, Stack, Partial, Invert, Reshape and EmbedCondition over the children's own (real) methods; the real
combinator's four methods, declared shape and cond_shape are compared with it.  merge_chains, indexing, slicing
and merge_transforms are checked to leave the function unchanged."""
from __future__ import annotations

import numpy as np

from fjmon import specs as S

PROPERTY = "C08"
LEVEL = "exploration"
NEEDS_SHIM = True
RULE = ("systematic sweep: Stack/Concatenate on every valid axis (negative included) for child ranks 0-3, Vmap with axis_size / "
        "in_axes=if_array(0) / per-leaf in_axes and in_axes_condition in {None, every valid axis incl. negative}, Partial with every "
        "index kind (int, negative int, slice, step slice, int array, bool array, tuples), Scan/Chain/Invert/Reshape/EmbedCondition, "
        "conditional and unconditional children mixed; plus seeded random expression trees (depth<=3). A case = (tree, parameter "
        "draw, method, input); non-trivial = the combinator's output differs from its input and the interpreter comparison was made; "
        "distinct_nontrivial counts hashed (tree, parameter draw, method) triples")
ASSUMPTIONS = [
    "expected shapes come from NumPy itself (np.stack / np.concatenate / zeros(shape)[idx])",
    "the interpreter calls the children's own real methods, so it decides only what the combinator adds",
    "comparison tolerance = 1e3 eps x finite-difference sensitivity of the interpreted map + 1e-10 (both sides run the same child code, fused differently)",
]
ANCHOR_FILES = ["bijections/chain.py", "bijections/jax_transforms.py", "bijections/concatenate.py", "bijections/utils.py",
                "distributions.py", "utils.py"]
REQUIRED_FUNCS = ["bijections/chain.py:Chain.merge_chains", "bijections/chain.py:Chain.__getitem__",
                  "bijections/jax_transforms.py:Scan.inverse_and_log_det", "bijections/jax_transforms.py:Vmap.get_cond_shape",
                  "bijections/jax_transforms.py:_resolve_vmapped_axes", "bijections/concatenate.py:Concatenate._argcheck_shapes",
                  "bijections/concatenate.py:Stack._split_and_squeeze", "bijections/utils.py:Partial.inverse_and_log_det",
                  "bijections/utils.py:Reshape.transform_and_log_det", "bijections/utils.py:EmbedCondition.inverse",
                  "bijections/utils.py:Invert.transform_and_log_det", "distributions.py:AbstractTransformed.merge_transforms",
                  "utils.py:merge_cond_shapes"]


def sweep_catalogue():
    """Systematic axis / index sweeps."""
    C = []
    aff = lambda sh: {"op": "Affine", "shape": sh}
    # Stack: every axis for child ranks 0..3, pairwise distinct sizes and child count
    for sh in [(), (3,), (2, 3), (2, 3, 5)]:
        r = len(sh)
        for ax in range(-(r + 1), r + 1):
            n = 7 if r else 3
            kids = [aff(sh), {"op": "LeakyTanh", "max_val": 1, "shape": sh}, {"op": "Loc", "shape": sh},
                    {"op": "Scale", "shape": sh, "neg": True}, {"op": "Identity", "shape": sh}, aff(sh), {"op": "Affine", "shape": sh, "neg": True}][:n]
            C.append({"op": "Stack", "axis": ax, "args": kids})
    # Stack with a conditional child
    C.append({"op": "Stack", "axis": -1, "args": [aff((3,)), {"op": "AdditiveCondition", "shape": (3,), "cond_shape": (2,)}]})
    C.append({"op": "Stack", "axis": -2, "args": [aff((3,)), {"op": "MAF", "dim": 3, "cond_dim": 2, "transformer": {"op": "Affine", "shape": ()}, "nn_width": 4, "nn_depth": 1}]})
    # Concatenate: every axis
    for sh in [(3,), (2, 3), (2, 3, 5)]:
        r = len(sh)
        for ax in range(-r, r):
            sizes = [1, 4, 2]
            kids = []
            for i, sz in enumerate(sizes):
                s2 = list(sh)
                s2[ax] = sz
                kids.append([aff(tuple(s2)), {"op": "LeakyTanh", "max_val": 1, "shape": tuple(s2)}, {"op": "Affine", "shape": tuple(s2), "neg": True}][i])
            C.append({"op": "Concatenate", "axis": ax, "args": kids})
    C.append({"op": "Concatenate", "axis": -1, "args": [{"op": "Coupling", "dim": 3, "untransformed_dim": 1, "cond_dim": None, "transformer": {"op": "Affine", "shape": ()}, "nn_width": 4, "nn_depth": 1},
                                                        {"op": "AdditiveCondition", "shape": (2,), "cond_shape": (2,)},
                                                        {"op": "MAF", "dim": 2, "cond_dim": None, "transformer": {"op": "RQS", "knots": 3, "interval": 2}, "nn_width": 4, "nn_depth": 1}]})
    C.append({"op": "Concatenate", "axis": 0, "args": [{"op": "BNAF", "dim": 2, "cond_dim": None, "depth": 1, "block_dim": 2},
                                                       {"op": "Planar", "dim": 3, "cond_dim": 2, "negative_slope": 0.2}]})
    # Vmap: condition axes (child cond rank 0..2), every valid axis incl. negative, both parameter modes
    for cc in [(), (2,), (2, 5)]:
        rc = len(cc)
        for ax in [None] + list(range(-(rc + 1), rc + 1)):
            for mode in ("size", "params"):
                C.append({"op": "Vmap", "mode": mode, "n": 3, "cond_axis": ax,
                          "child": {"op": "AdditiveCondition", "shape": (4,), "cond_shape": cc}})
    C.append({"op": "Vmap", "mode": "params", "n": 3, "cond_axis": -1,
              "child": {"op": "MAF", "dim": 2, "cond_dim": 2, "transformer": {"op": "RQS", "knots": 3, "interval": 2}, "nn_width": 4, "nn_depth": 1}})
    C.append({"op": "Vmap", "mode": "perleaf", "n": 3, "child": aff(())})
    C.append({"op": "Vmap", "mode": "perleaf", "n": 5, "child": aff((2,))})
    C.append({"op": "Vmap", "mode": "params", "n": 3, "child": {"op": "Vmap", "mode": "size", "n": 2, "child": {"op": "RQS", "knots": 3, "interval": 2}}})
    # Partial: every index kind on (3,5) and (7,)
    full = (3, 5)
    kinds = [({"int": 1}, None), ({"int": -1}, None), ({"int": 0}, None), ({"slice": [0, 2, None]}, None), ({"slice": [1, None, None]}, None),
             ({"slice": [None, None, 2]}, None), ({"slice": [None, None, -1]}, None), ({"ints": [0, 2]}, None), ({"ints": [2, 0]}, None), ({"ints": [-1]}, None),
             ({"bools": [True, False, True]}, None), ({"bools": [False, False, True]}, None),
             ({"tuple": [{"int": 1}, {"slice": [1, 4, None]}]}, None), ({"tuple": [{"ints": [0, 2]}, {"ints": [1, 3]}]}, None),
             ({"tuple": [{"slice": [None, None, None]}, {"ints": [4, 0, 2]}]}, None), ({"tuple": [{"slice": [None, None, None]}, {"int": -2}]}, None),
             ({"tuple": [{"bools": [True, False, True]}, {"slice": [0, 2, None]}]}, None),
             ({"tuple": [{"ellipsis": True}, {"int": 0}]}, None),
             ({"bools": [[True, False, False, True, False], [False, False, False, False, False], [True, True, False, False, True]]}, None)]
    for enc, _ in kinds:
        sub = np.zeros(full)[S.decode_index(enc, np_only=True)].shape
        if 0 in sub:
            continue
        C.append({"op": "Partial", "idxs": enc, "shape": full, "child": {"op": "Affine", "shape": tuple(sub), "neg": True}})
    C.append({"op": "Partial", "idxs": {"slice": [2, 5, None]}, "shape": (7,),
              "child": {"op": "MAF", "dim": 3, "cond_dim": 2, "transformer": {"op": "Affine", "shape": ()}, "nn_width": 4, "nn_depth": 1}})
    C.append({"op": "Partial", "idxs": {"ints": [6, 1, 3]}, "shape": (7,), "child": {"op": "TriangularAffine", "dim": 3, "lower": True}})
    C.append({"op": "Partial", "idxs": {"slice": [0, 3, None]}, "shape": (7,), "child": {"op": "Exp", "shape": (3,)}})
    C.append({"op": "Partial", "idxs": {"ints": [1, 4]}, "shape": (5,), "child": {"op": "Tanh", "shape": (2,)}})
    C.append({"op": "Chain", "args": [{"op": "Partial", "idxs": {"int": 0}, "shape": (3,), "child": {"op": "Exp", "shape": ()}},
                                      {"op": "Partial", "idxs": {"int": 0}, "shape": (3,), "child": {"op": "Invert", "child": {"op": "Exp", "shape": ()}}}]})
    # nested chains for merge / indexing
    a3 = aff((3,))
    C.append({"op": "Chain", "args": [a3, {"op": "Chain", "args": [{"op": "Permute", "shape": (3,)}, {"op": "Chain", "args": [{"op": "LeakyTanh", "max_val": 1, "shape": (3,)}, a3]},
                                                                    {"op": "TriangularAffine", "dim": 3, "lower": False}]},
                                      {"op": "Chain", "args": [{"op": "Flip", "shape": (3,)}, {"op": "AdditiveCondition", "shape": (3,), "cond_shape": (2,)}]}, a3]})
    C.append({"op": "Chain", "args": [{"op": "Chain", "args": [{"op": "Chain", "args": [a3]}]}, {"op": "Invert", "child": {"op": "Chain", "args": [a3, {"op": "Permute", "shape": (3,)}]}}]})
    C.append({"op": "Scan", "n": 3, "child": {"op": "Chain", "args": [{"op": "MAF", "dim": 3, "cond_dim": 2, "transformer": {"op": "Affine", "shape": ()}, "nn_width": 4, "nn_depth": 1}, {"op": "Permute", "shape": (3,)}]}})
    C.append({"op": "Scan", "n": 5, "child": {"op": "Vmap", "mode": "params", "n": 2, "child": {"op": "RQS", "knots": 3, "interval": 2}}})
    C.append({"op": "Scan", "n": 2, "child": {"op": "Scan", "n": 3, "child": a3}})
    C.append({"op": "Invert", "child": {"op": "Scan", "n": 3, "child": {"op": "Coupling", "dim": 3, "untransformed_dim": 2, "cond_dim": None, "transformer": {"op": "RQS", "knots": 3, "interval": 2}, "nn_width": 4, "nn_depth": 1}}})
    C.append({"op": "Reshape", "shape": (2, 3), "cond_shape": (2, 2), "child": {"op": "MAF", "dim": 6, "cond_dim": 4, "transformer": {"op": "Affine", "shape": ()}, "nn_width": 6, "nn_depth": 1}})
    C.append({"op": "Reshape", "shape": (6,), "child": {"op": "Stack", "axis": -1, "args": [aff((3,)), {"op": "Loc", "shape": (3,)}]}})
    C.append({"op": "EmbedCondition", "raw_cond_shape": (2, 3), "child": {"op": "Planar", "dim": 3, "cond_dim": 2, "negative_slope": 0.3}})
    C.append({"op": "EmbedCondition", "raw_cond_shape": (5,), "child": {"op": "Vmap", "mode": "params", "n": 3, "cond_axis": -1, "child": {"op": "AdditiveCondition", "shape": (), "cond_shape": ()}}})
    return C


def plan(tier, seed):
    items = [{"spec": sp, "bseed": 8000 + i, "origin": "sweep"} for i, sp in enumerate(sweep_catalogue())]
    items += [{"spec": sp, "bseed": 8500 + i, "origin": "catalogue"} for i, sp in enumerate(S.combinator_catalogue())]
    rng = np.random.default_rng([seed, 808])
    gen = S.Gen(rng, allow_bnaf=True)
    nrand = 70 if tier != "thorough" else 1200
    k = 0
    while k < nrand:
        sp = gen.random_spec(depth=int(rng.integers(1, 4)))
        if sp["op"] in S.ELEMENTWISE or not (S.ops_in(sp) & {"Chain", "Scan", "Vmap", "Concatenate", "Stack", "Partial", "Invert", "Reshape", "EmbedCondition"}):
            continue
        sp = _randomise_axes(sp, rng)
        if not S.validate(sp):
            continue
        items.append({"spec": sp, "bseed": int(rng.integers(0, 2**31 - 1)), "origin": "random"})
        k += 1
    nsh = 16
    groups = [[] for _ in range(nsh)]
    loads = [0.0] * nsh
    for it in sorted(items, key=lambda it: -S.size_of(it["spec"])):
        j = int(np.argmin(loads))
        groups[j].append(it)
        loads[j] += 1 + S.size_of(it["spec"]) + (4 if "BNAF" in S.ops_in(it["spec"]) else 0)
    return [{"name": f"C08-{i}", "shard": i, "items": g, "x64": True, "timeout": 3400} for i, g in enumerate(groups)]


def _randomise_axes(s, rng):
    """Make condition axes of generated Vmap nodes negative half of the time (same meaning, other spelling)."""
    s = dict(s)
    if s["op"] == "Vmap" and s.get("cond_axis") is not None and rng.random() < 0.5:
        c = S.cond_shape_of(s["child"])
        if c is not None:
            s["cond_axis"] = s["cond_axis"] - (len(c) + 1)
    if "args" in s:
        s["args"] = [_randomise_axes(a, rng) for a in s["args"]]
    if "child" in s:
        s["child"] = _randomise_axes(s["child"], rng)
    return s


# ------------------------------------------------------------------ interpreter ----------
class Interp:
    """Batched reference interpreter: arrays carry a leading batch axis of size N."""

    def __init__(self):
        import equinox as eqx
        import jax

        self.eqx, self.jax = eqx, jax
        self._jit = {}
        self.leaf_calls = 0

    def leaf(self, b, method, x, c):
        """Call the real leaf method, vmapped over the batch (compiled once per leaf structure)."""
        import jax.numpy as jnp

        jax, eqx = self.jax, self.eqx
        key = (method, c is None)
        if key not in self._jit:
            if c is None:
                self._jit[key] = eqx.filter_jit(lambda bb, xs: jax.vmap(lambda v: getattr(bb, method)(v))(xs))
            else:
                self._jit[key] = eqx.filter_jit(lambda bb, xs, cs: jax.vmap(lambda v, w: getattr(bb, method)(v, w))(xs, cs))
        self.leaf_calls += 1
        out = self._jit[key](b, jnp.asarray(x)) if c is None else self._jit[key](b, jnp.asarray(x), jnp.asarray(c))
        if method.endswith("log_det"):
            return np.asarray(out[0], dtype=np.float64), np.asarray(out[1], dtype=np.float64)
        return np.asarray(out, dtype=np.float64), None

    def slice_leaves(self, tree, i):
        jax, eqx = self.jax, self.eqx
        return jax.tree_util.tree_map(lambda l: l[i] if eqx.is_array(l) else l, tree)

    def run(self, b, s, method, x, c):
        """-> (y, log_det or None); x: (N, *shape), c: (N, *cond_shape) or None."""
        op = s["op"]
        fwd = method.startswith("transform")
        want_ld = method.endswith("log_det")
        N = x.shape[0]
        zero = np.zeros(N) if want_ld else None
        add = (lambda a, b_: a + b_) if want_ld else (lambda a, b_: None)
        cond_for = lambda sub: c if S.cond_shape_of(sub) is not None else None
        if op == "Chain":
            kids = list(zip(b.bijections, s["args"]))
            ld = zero
            for kb, ks in (kids if fwd else reversed(kids)):
                x, l = self.run(kb, ks, method, x, c)
                ld = add(ld, l)
            return x, ld
        if op == "Scan":
            n = s["n"]
            layers = [self.slice_leaves(b.bijection, i) for i in range(n)]
            ld = zero
            for lb in (layers if fwd else reversed(layers)):
                x, l = self.run(lb, s["child"], method, x, c)
                ld = add(ld, l)
            return x, ld
        if op == "Vmap":
            n = s["n"]
            mapped = _vmap_mapped_params(b)
            outs, ld = [], zero
            ax = s.get("cond_axis")
            for i in range(n):
                child = self.slice_leaves(b.bijection, i) if mapped == "all" else (mapped(b.bijection, i) if callable(mapped) else b.bijection)
                ci = c
                if c is not None and ax is not None:
                    ci = np.take(c, i, axis=ax + 1 if ax >= 0 else ax)  # batch axis 0 shifts non-negative axes
                yi, l = self.run(child, s["child"], method, x[:, i], ci)
                outs.append(yi)
                ld = add(ld, l)
            return np.stack(outs, axis=1), ld
        if op == "Concatenate":
            ax = s["axis"]
            nax = ax + 1 if ax >= 0 else ax
            sizes = [S.shape_of(a)[ax] for a in s["args"]]
            parts = np.split(x, np.cumsum(sizes)[:-1], axis=nax)
            outs, ld = [], zero
            for kb, ks, p in zip(b.bijections, s["args"], parts):
                y, l = self.run(kb, ks, method, p, c)
                outs.append(y)
                ld = add(ld, l)
            return np.concatenate(outs, axis=nax), ld
        if op == "Stack":
            ax = s["axis"]
            nax = ax + 1 if ax >= 0 else ax
            outs, ld = [], zero
            for i, (kb, ks) in enumerate(zip(b.bijections, s["args"])):
                y, l = self.run(kb, ks, method, np.take(x, i, axis=nax), c)
                outs.append(y)
                ld = add(ld, l)
            return np.stack(outs, axis=nax), ld
        if op == "Partial":
            idx = S.decode_index(s["idxs"], np_only=True)
            full = (slice(None),) + (idx if isinstance(idx, tuple) else (idx,))
            y = np.array(x, copy=True)
            sub, ld = self.run(b.bijection, s["child"], method, x[full], c)
            y[full] = sub
            return y, ld
        if op == "Invert":
            swap = {"transform": "inverse", "inverse": "transform", "transform_and_log_det": "inverse_and_log_det",
                    "inverse_and_log_det": "transform_and_log_det"}[method]
            return self.run(b.bijection, s["child"], swap, x, c)
        if op == "Reshape":
            csh = S.shape_of(s["child"])
            ccs = S.cond_shape_of(s["child"])
            ci = c.reshape((N, *ccs)) if (c is not None and ccs is not None) else c
            y, ld = self.run(b.bijection, s["child"], method, x.reshape((N, *csh)), ci)
            return y.reshape((N, *s["shape"])), ld
        if op == "EmbedCondition":
            import jax.numpy as jnp

            emb = np.asarray(self.jax.vmap(b.embedding_net)(jnp.asarray(c)), dtype=np.float64)
            return self.run(b.bijection, s["child"], method, x, emb)
        # leaf
        return self.leaf(b, method, x, c if S.cond_shape_of(s) is not None else None)


def _vmap_mapped_params(b):
    """How the real Vmap maps its parameters: 'all' (if_array(0)), None (broadcast) or a slicer for per-leaf axes."""
    import equinox as eqx
    import jax

    in_axes = b.in_axes[0]
    if in_axes is None:
        return None
    if callable(in_axes):
        return "all"
    # pytree prefix of None / int
    def slicer(tree, i):
        from flowjax.wrappers import unwrap

        u = unwrap(tree)  # in_axes are specified for the unwrapped structure
        axes = jax.tree_util.tree_map(lambda a, sub: jax.tree_util.tree_map(lambda _: a, sub), in_axes, u, is_leaf=lambda z: z is None)
        return jax.tree_util.tree_map(lambda leaf, a: (jax.numpy.take(leaf, i, axis=a) if (a is not None and eqx.is_array(leaf)) else leaf), u, axes,
                                      is_leaf=lambda z: z is None)
    return slicer


def build_c08(sp, key):
    """Like specs.build, plus the 'perleaf' Vmap mode (docs example: broadcast scale, mapped loc)."""
    import equinox as eqx
    import jax
    import jax.numpy as jnp
    import jax.random as jr
    import flowjax.bijections as B
    from flowjax.wrappers import unwrap

    if sp["op"] == "Vmap" and sp.get("mode") == "perleaf":
        n = sp["n"]
        sh = tuple(sp["child"]["shape"])
        k1, k2 = jr.split(key)
        bij = B.Affine(jnp.zeros(sh), jnp.exp(jr.uniform(k1, sh, minval=-0.5, maxval=0.5)))
        bij = eqx.tree_at(lambda a: a.loc, bij, jr.uniform(k2, (n, *sh), minval=-2, maxval=2))
        in_axes = jax.tree_util.tree_map(lambda _: None, unwrap(bij))
        in_axes = eqx.tree_at(lambda a: a.loc, in_axes, 0, is_leaf=lambda x: x is None)
        return B.Vmap(bij, in_axes=in_axes)
    return S.build(sp, key)


def run_shard(shard):
    import equinox as eqx
    import jax
    import jax.numpy as jnp
    import jax.random as jr
    import flowjax.bijections as B
    from fjmon.bijcheck import Recorder
    from fjmon.common import chash, jsonable, perturb

    rec = Recorder(shard, "C08")
    rng = np.random.default_rng([shard["seed"], 8, shard.get("shard", 0)])
    eps = 2.220446049250313e-16
    modes = [tuple(shard["only_mode"])] if shard.get("only_mode") else [("init", 0.0), ("sigma", 0.5)]
    N = 24
    methods = ["transform", "transform_and_log_det", "inverse", "inverse_and_log_det"]

    def real_call(b, method, x, c):
        if c is None:
            f = eqx.filter_jit(lambda bb, xs: jax.vmap(lambda v: getattr(bb, method)(v))(xs))
            out = f(b, jnp.asarray(x))
        else:
            f = eqx.filter_jit(lambda bb, xs, cs: jax.vmap(lambda v, w: getattr(bb, method)(v, w))(xs, cs))
            out = f(b, jnp.asarray(x), jnp.asarray(c))
        if method.endswith("log_det"):
            return np.asarray(out[0], dtype=np.float64), np.asarray(out[1], dtype=np.float64)
        return np.asarray(out, dtype=np.float64), None

    special = {it["spec"] for it in shard["items"] if isinstance(it.get("spec"), str)}  # replay of a clause that has no tree
    for it in shard["items"]:
        sp = it["spec"]
        if isinstance(sp, str):
            continue
        name = sp["op"]
        rec.count("trees")
        rec.count("origin_" + it["origin"])
        for o in S.ops_in(sp):
            rec.count("op_" + o)
        exp_shape, exp_cond = S.shape_of(sp) if sp.get("mode") != "perleaf" else (sp["n"], *sp["child"]["shape"]), S.cond_shape_of(sp)
        try:
            b0 = build_c08(sp, jr.PRNGKey(it["bseed"]))
        except Exception as e:  # noqa: BLE001
            rec.violation(f"build.{type(e).__name__}", f"{name}: constructor raised {type(e).__name__}: {str(e)[:200]} for a valid expression {sp}",
                          it, ("init", 0.0), {"exception": str(e)[:800]})
            continue
        # ---- declared shapes vs NumPy
        rec.evals += 1
        if tuple(b0.shape) != tuple(exp_shape) or (b0.cond_shape if b0.cond_shape is None else tuple(b0.cond_shape)) != exp_cond:
            rec.violation("shape.declared", f"{name}: declares shape={b0.shape} cond_shape={b0.cond_shape}; NumPy semantics give shape={exp_shape} "
                                            f"cond_shape={exp_cond} for {sp}", it, ("init", 0.0), {"declared": [b0.shape, b0.cond_shape], "expected": [exp_shape, exp_cond]})
            continue
        rec.count("declared_shapes_checked")
        inv_ok, fwd_ok = S.invertible(sp), S.forward_ok(sp)
        numeric_tree = "BNAF" in S.ops_in(sp)
        dtag, ctag = S.tags(sp) if sp.get("mode") != "perleaf" else (np.zeros(exp_shape, int), np.zeros(exp_shape, int))
        interp = Interp()
        for mode in modes:
            if mode[1] > 0 and "Planar" in S.ops_in(sp):
                mode = (mode[0], 0.25)
            b = b0 if mode[0] == "init" else perturb(b0, mode[1], it["bseed"] + 17, clip=6.0)
            from fjmon import bijbundle as BB

            crit = BB.criticals_from_spec(sp)
            xs, _, _ = BB.make_points(dtag, crit, rng, np.float64, n_rand=12, n_crit=10, n_big=2, big=1e3)
            ys, _, _ = BB.make_points(ctag, crit, rng, np.float64, n_rand=12, n_crit=10, n_big=2, big=1e3)
            xs, ys = xs[:N], ys[:N]
            cs = None if exp_cond is None else rng.standard_normal((len(xs), *exp_cond))
            for method in methods:
                if method.startswith("inverse") and not inv_ok:
                    continue
                if method.startswith("transform") and not fwd_ok:
                    continue
                pts = xs if method.startswith("transform") else ys
                rec.evals += len(pts)
                try:
                    y, ld = real_call(b, method, pts, cs)
                except Exception as e:  # noqa: BLE001
                    rec.violation(f"exception.{type(e).__name__}", f"{name}.{method} [{mode}] raised {type(e).__name__}: {str(e)[:250]} on inputs of the "
                                                                   f"declared shape {exp_shape}/{exp_cond}; {sp}", it, mode, {"exception": str(e)[:1200]})
                    break
                if y.shape != (len(pts), *exp_shape) or (ld is not None and ld.shape != (len(pts),)):
                    rec.violation("shape.returned", f"{name}.{method}: returned shape {y.shape[1:]} (log-det {None if ld is None else ld.shape[1:]}), "
                                                    f"declared {exp_shape}", it, mode, {})
                    break
                try:
                    yr, ldr = interp.run(b, sp, method, np.asarray(pts, dtype=np.float64), cs)
                    yr2, _ = interp.run(b, sp, method, np.asarray(pts, dtype=np.float64) * (1 + 1e-11) + 1e-13, cs)
                except Exception as e:  # noqa: BLE001 - a child's own method raised on the slice the definition hands it
                    rec.count("interpreter_child_exception")
                    rec.violation(f"interp.{type(e).__name__}", f"{name}.{method}: applying the definition to the children raised {type(e).__name__}: {str(e)[:200]}; {sp}",
                                  it, mode, {})
                    break
                rec.count("interpreter_comparisons", len(pts))
                fin = np.isfinite(yr.reshape(len(pts), -1)).all(1) & np.isfinite(y.reshape(len(pts), -1)).all(1)
                dx = 1e-11 * np.abs(pts.reshape(len(pts), -1)).max(1) + 1e-13
                sens = np.abs((yr2 - yr).reshape(len(pts), -1)).max(1) / dx
                sens = np.where(np.isfinite(sens), sens, np.inf)
                amag = np.abs(pts.reshape(len(pts), -1)).max(1)
                ymag = np.abs(np.where(np.isfinite(yr), yr, 0).reshape(len(pts), -1)).max(1)
                # both sides run the same child code: errors scale with the output magnitude and with the input rounding amplified
                # by the map's sensitivity - not with |x| itself (an implementation that adds and subtracts x, e.g. writing y as
                # x + (y - x), loses small outputs next to large inputs and must be visible)
                tol = 1e3 * eps * (ymag + sens * amag) + 1e-30
                if numeric_tree:
                    tol = tol + 1e-5 * (1 + sens) + 1e-6
                err = np.abs((y - yr).reshape(len(pts), -1)).max(1)
                gate = fin & (tol < 1e-4 * (1 + amag + ymag))
                bad = gate & (err > tol)
                rec.maxi("value_err_over_tol", np.max(np.where(gate & ~bad, err / tol, 0)) if len(pts) else 0)
                rec.count("gated_ill_conditioned_or_nonfinite", (~gate).sum())
                if bad.any():
                    i = int(np.where(bad)[0][np.argmax((err / tol)[bad])])
                    rec.violation("value." + method, f"{name}.{method} [{mode}]: differs from its definition applied to the children by {err[i]:.3g} "
                                                     f"(tol {tol[i]:.3g}) at {pts[i].tolist()}; {sp}", it, mode,
                                  {"x": pts[i], "condition": None if cs is None else cs[i], "got": y[i], "definition": yr[i]})
                    break
                if ld is not None:
                    # the log-det is a sum over parts: tolerance from the same sensitivity (second interpreter pass)
                    _, ldr2 = interp.run(b, sp, method, np.asarray(pts, dtype=np.float64) * (1 + 1e-11) + 1e-13, cs)
                    lsens = np.abs(ldr2 - ldr) / dx
                    ltol = 1e3 * eps * (1 + np.where(np.isfinite(lsens), lsens, np.inf)) * (1 + amag) + 1e-9 * (1 + np.abs(ldr))
                    lerr = np.abs(ld - ldr)
                    lg = gate & np.isfinite(ldr) & (ltol < 1e-3)
                    lbad = lg & ~(lerr <= ltol)
                    rec.maxi("logdet_err_over_tol", np.max(np.where(lg & ~lbad, lerr / ltol, 0)) if len(pts) else 0)
                    if lbad.any():
                        i = int(np.where(lbad)[0][0])
                        rec.violation("logdet." + method, f"{name}.{method} [{mode}]: log-det {ld[i]!r} differs from the sum over the parts {ldr[i]!r} "
                                                          f"(tol {ltol[i]:.3g}); {sp}", it, mode, {"x": pts[i], "got": ld[i], "definition": ldr[i]})
                        break
                moved = gate & (np.abs((yr - pts).reshape(len(pts), -1)).max(1) > 1e-9)
                if moved.any():
                    rec.nontrivial.add(chash(sp, it["bseed"], list(mode), method))
                    rec.count("nontrivial_cases_total", moved.sum())
                if len(rec.samples) < 3 and it["origin"] == "random" and moved.any() and method == "transform_and_log_det":
                    i = int(np.where(moved)[0][0])
                    rec.samples.append(jsonable({"tree": sp, "method": method, "x": pts[i], "real": y[i], "definition": yr[i],
                                                 "log_det_real": ld[i], "log_det_definition": ldr[i]}))
        rec.count("interpreter_leaf_calls", interp.leaf_calls)
        # ---- merge_chains / indexing / slicing never change the function
        if sp["op"] == "Chain" and fwd_ok:
            _check_chain_ops(rec, it, sp, b0, real_call, rng, exp_shape, exp_cond, dtag, interp)
    if not shard.get("replay") or "nested-transformed" in special:
        _check_merge_transforms(rec, shard, rng)
    if (shard.get("shard", 0) == 0 and not shard.get("replay")) or "label-conditions" in special:
        _check_label_conditions(rec, shard, rng)
    out = rec.result()
    if not shard.get("replay"):
        out["required"] = {"interpreter_comparisons": rec.counters.get("interpreter_comparisons", 0),
                           "declared_shapes_checked": rec.counters.get("declared_shapes_checked", 0)}
    return out


def _check_chain_ops(rec, it, sp, b, real_call, rng, exp_shape, exp_cond, dtag, interp):
    import flowjax.bijections as B
    from fjmon import bijbundle as BB

    xs, _, _ = BB.make_points(dtag, {}, rng, np.float64, n_rand=9, n_crit=3, n_big=0)
    cs = None if exp_cond is None else rng.standard_normal((len(xs), *exp_cond))
    y0, ld0 = real_call(b, "transform_and_log_det", xs, cs)
    merged = b.merge_chains()
    rec.count("merge_chains_checked")
    if any(isinstance(k, B.Chain) for k in merged.bijections):
        rec.violation("merge_chains.nested", f"merge_chains left a nested Chain; {sp}", it, ("init", 0.0), {})

    def flat(s):
        return [k2 for k in s["args"] for k2 in (flat(k) if k["op"] == "Chain" else [k])]

    if len(merged) != len(flat(sp)):
        rec.violation("merge_chains.length", f"merge_chains has {len(merged)} members, the expression has {len(flat(sp))} non-chain members in order; {sp}",
                      it, ("init", 0.0), {})
    y1, ld1 = real_call(merged, "transform_and_log_det", xs, cs)
    tol = 1e-9 * (1 + np.abs(y0).max())
    if not (np.allclose(y0, y1, rtol=1e-9, atol=tol, equal_nan=True) and np.allclose(ld0, ld1, rtol=1e-9, atol=1e-9, equal_nan=True)):
        rec.violation("merge_chains.value", f"merge_chains changed the function; {sp}", it, ("init", 0.0), {})
    # indexing / slicing
    n = len(sp["args"])
    for i in range(-n, n):
        if b[i] is not b.bijections[i]:
            rec.violation("chain.getitem", f"chain[{i}] is not the {i}-th member; {sp}", it, ("init", 0.0), {})
    for a, e in [(0, n), (1, n), (0, n - 1), (None, None), (1, None), (-1, None)]:
        sl = slice(a, e)
        kids = sp["args"][sl]
        if not kids:
            continue
        sub = b[sl]
        rec.count("chain_slices_checked")
        sub_spec = {"op": "Chain", "args": kids}
        if not S.forward_ok(sub_spec):
            continue
        dt, _ = S.tags(sub_spec)
        pts, _, _ = BB.make_points(dt, {}, rng, np.float64, n_rand=6, n_crit=2, n_big=0)
        cc = None if S.cond_shape_of(sub_spec) is None else rng.standard_normal((len(pts), *S.cond_shape_of(sub_spec)))
        if (sub.cond_shape is None) != (cc is None):
            rec.violation("chain.slice.cond_shape", f"chain[{a}:{e}] has cond_shape {sub.cond_shape}, members give {S.cond_shape_of(sub_spec)}; {sp}", it, ("init", 0.0), {})
            continue
        ys, _ = real_call(sub, "transform", pts, cc)
        yr, _ = interp.run(sub, sub_spec, "transform", pts, cc)
        if not np.allclose(ys, yr, rtol=1e-9, atol=1e-9 * (1 + np.abs(yr).max()), equal_nan=True):
            rec.violation("chain.slice.value", f"chain[{a}:{e}] is not the chain of those members; {sp}", it, ("init", 0.0), {})


def _check_label_conditions(rec, shard, rng):
    """EmbedCondition (and the combinators that pass a condition on) only re-present the inputs: with an embedding network
    that looks class labels up in a table, every method must equal the child's method on the embedded label - also for
    integer-typed labels (the documented use of an embedding network) and ids beyond float32's integer range."""
    import equinox as eqx
    import jax.numpy as jnp
    import flowjax.bijections as B

    d, K = 3, 7
    table = jnp.asarray(rng.normal(size=(K, d)))

    class Lookup(eqx.Module):
        table: object

        def __call__(self, lab):
            return self.table[lab % K]

    net = Lookup(table)
    child = B.Chain([B.AdditiveCondition(lambda c: 2.0 * c, (d,), (d,)), B.Affine(jnp.arange(d, dtype=float), jnp.asarray([0.5, 2.0, 3.0]))])
    emb = B.EmbedCondition(child, net, ())
    x = jnp.asarray(rng.normal(size=d))
    labs = [np.int32(0), np.int32(5), np.int32(2**24 + 1), np.int32(2**24 + 3), np.int64(2**31 + 5) if False else np.int32(2**30 + 11), 3]
    wrappers = {
        "EmbedCondition": (emb, lambda f, xx, lab: f(child)(xx, net(lab))),
        "Chain[EmbedCondition, Flip]": (B.Chain([emb, B.Flip((d,))]), None),
        "Invert(EmbedCondition)": (B.Invert(emb), None),
    }
    for lab in labs:
        e = np.asarray(net(jnp.asarray(lab)), dtype=np.float64)
        for method in ("transform", "transform_and_log_det", "inverse", "inverse_and_log_det"):
            want = getattr(child, method)(x, jnp.asarray(e))
            want_pt = np.asarray(want[0] if method.endswith("log_det") else want, dtype=np.float64)
            for nm, (b, _) in wrappers.items():
                rec.evals += 1
                rec.count("label_condition_checks")
                rec.nontrivial.add(("label", nm, int(lab), method))
                m2 = method
                ref = want_pt
                if nm.startswith("Chain"):
                    if method.startswith("transform"):
                        ref = want_pt[::-1]
                        xin = x
                    else:
                        xin = x[::-1]
                elif nm.startswith("Invert"):
                    m2 = method.replace("transform", "TMP").replace("inverse", "transform").replace("TMP", "inverse")
                    xin = x
                    w2 = getattr(child, m2)(x, jnp.asarray(e))
                    ref = np.asarray(w2[0] if m2.endswith("log_det") else w2, dtype=np.float64)
                else:
                    xin = x
                try:
                    got = getattr(b, method)(xin, lab if isinstance(lab, int) else jnp.asarray(lab))
                except Exception as ex:  # noqa: BLE001
                    rec.violation("label_condition.exception", f"{nm}.{method} with the integer label {int(lab)} ({type(lab).__name__}) raised "
                                                               f"{type(ex).__name__}: {str(ex)[:200]}; the child's method on the embedded label works",
                                  {"spec": "label-conditions"}, ("init", 0.0), {})
                    continue
                got_pt = np.asarray(got[0] if method.endswith("log_det") else got, dtype=np.float64)
                if got_pt.shape != ref.shape or not np.allclose(got_pt, ref, rtol=1e-12, atol=1e-12):
                    rec.violation("label_condition.value", f"{nm}.{method} with the integer label {int(lab)}: {got_pt.tolist()} differs from the child's "
                                                           f"method on the embedded label {ref.tolist()} (table row {int(lab) % K})",
                                  {"spec": "label-conditions"}, ("init", 0.0), {})


def _check_merge_transforms(rec, shard, rng):
    """Nested Transformed distributions: merge_transforms keeps log_prob and sample."""
    import jax.numpy as jnp
    import jax.random as jr
    import flowjax.bijections as B
    from flowjax.distributions import Normal, StandardNormal, Transformed

    for k in range(2):
        key = jr.PRNGKey(int(rng.integers(0, 2**31 - 1)))
        ks = jr.split(key, 6)
        d = 3
        b1 = B.Affine(jr.normal(ks[0], (d,)), jnp.exp(jr.normal(ks[1], (d,)) * 0.5))
        b2 = B.Chain([B.Permute(jr.permutation(ks[2], jnp.arange(d))), B.LeakyTanh(1.0, (d,))])
        off = 0.3 * jr.normal(ks[4], (d, d))
        b3 = B.TriangularAffine(jr.normal(ks[3], (d,)), off - jnp.diag(jnp.diag(off)) + jnp.diag(jnp.exp(jnp.diag(off))))  # diagonal must be positive
        base = Normal(jnp.arange(d, dtype=float), jnp.full((d,), 1.5)) if k else StandardNormal((d,))
        nested = Transformed(Transformed(Transformed(base, b1), b2), b3)
        merged = nested.merge_transforms()
        rec.count("merge_transforms_checked")
        rec.evals += 1
        from flowjax.distributions import AbstractTransformed

        if isinstance(merged.base_dist, AbstractTransformed) and not isinstance(merged.base_dist, Normal):
            rec.violation("merge_transforms.nested", "merge_transforms left a nested Transformed base", {"spec": "nested-transformed"}, ("init", 0.0), {})
        x = jr.normal(ks[5], (16, d)) * 2
        lp0, lp1 = np.asarray(nested.log_prob(x)), np.asarray(merged.log_prob(x))
        s0, s1 = np.asarray(nested.sample(key, (8,))), np.asarray(merged.sample(key, (8,)))
        if not (np.allclose(lp0, lp1, rtol=1e-9, atol=1e-9) and np.allclose(s0, s1, rtol=1e-9, atol=1e-9)):
            rec.violation("merge_transforms.value", f"merge_transforms changed log_prob or sample (max diff {np.abs(lp0 - lp1).max():.3g}/{np.abs(s0 - s1).max():.3g})",
                          {"spec": "nested-transformed"}, ("init", 0.0), {})
