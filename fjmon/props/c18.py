"""C18 - finite log-probabilities have finite gradients; log_prob is never NaN.

For every distribution structure one jitted+vmapped bundle evaluates the public log_prob, jax.grad w.r.t. the
input and eqx.filter_grad w.r.t. every trainable leaf on a boundary-directed batch (exact interval ends, knots,
+-max_val, tanh(max_val), +-1, 0, float neighbours, magnitudes to 1e4).  Oracle: isnan / isfinite, no tolerance.
A harness-side monitor on the real RationalQuadraticSpline / LeakyTanh methods measures how often the *inner*
leaves actually saw an exact branch value (reported as boundary hits)."""
from __future__ import annotations

import time

import numpy as np

from fjmon import distgen

PROPERTY = "C18"
LEVEL = "exploration"
NEEDS_SHIM = True
RULE = ("distributions = Transformed(base in {StandardNormal, Normal, StudentT, Cauchy, Laplace, Logistic, Gumbel}, b) for every "
        "R->R leaf/combinator structure in both orientations + all five flow factories x invert x cond x transformer + random "
        "trees; x parameter modes (init, sigma 0.5, 1.5) x boundary-directed inputs (|x| <= 1e4) x float64 [thorough: + float32]. "
        "A case = (distribution, parameter draw, input); non-trivial = log_prob finite AND (the input is critical-directed OR "
        "parameters are perturbed); distinct_nontrivial counts up to 8 hashed representatives per (distribution, parameter draw)")
ASSUMPTIONS = [
    "inputs are bounded by |x| <= 1e4 as the statement says (beyond that float overflow is legitimate)",
    "a NaN/inf gradient is only an alarm where the public log_prob itself is finite",
    "planar-containing structures are perturbed with sigma <= 0.5 (constraint unrepresentable beyond w.u < -36)",
    "equinox shim in the harness process (BNAF / triangular-spline flows)",
]
ANCHOR_FILES = ["distributions.py", "bijections/rational_quadratic_spline.py", "bijections/tanh.py", "bijections/softplus.py",
                "bijections/block_autoregressive_network.py", "flows.py"]
REQUIRED_FUNCS = ["distributions.py:AbstractDistribution.log_prob", "distributions.py:AbstractTransformed._log_prob",
                  "bijections/rational_quadratic_spline.py:RationalQuadraticSpline.inverse",
                  "bijections/rational_quadratic_spline.py:RationalQuadraticSpline.derivative",
                  "bijections/tanh.py:LeakyTanh.inverse_and_log_det", "bijections/tanh.py:LeakyTanh.transform_and_log_det",
                  "bijections/block_autoregressive_network.py:BlockAutoregressiveNetwork._activation_and_log_jacobian_3d",
                  "bijections/block_autoregressive_network.py:logmatmulexp", "flows.py:triangular_spline_flow",
                  "flows.py:masked_autoregressive_flow", "flows.py:coupling_flow", "flows.py:planar_flow"]


def plan(tier, seed):
    items = distgen.dist_items(tier, seed)
    nsh = 16
    groups = [[] for _ in range(nsh)]
    loads = [0.0] * nsh
    for it in sorted(items, key=lambda it: -_cost(it)):
        j = int(np.argmin(loads))
        groups[j].append(it)
        loads[j] += _cost(it)
    shards = [{"name": f"C18-{i}", "shard": i, "items": g, "x64": True, "timeout": 3400} for i, g in enumerate(groups)]
    # distributions with a restricted support (named families and elementary bijections onto part of the line), both precisions
    shards.append({"name": "C18-support-f64", "shard": 200, "items": [], "support": True, "x64": True, "timeout": 3000})
    shards.append({"name": "C18-support-f32", "shard": 201, "items": [], "support": True, "x64": False, "timeout": 3000})
    if tier == "thorough":
        small = [it for it in items if it["origin"] != "random"]
        for i in range(8):
            shards.append({"name": f"C18-f32-{i}", "shard": 100 + i, "items": small[i::8], "x64": False, "timeout": 3400})
    return shards


def _cost(it):
    if it["kind"] == "flow":
        c = it["case"]
        heavy = c["factory"] == "block_neural_autoregressive_flow" and not c["invert"]
        return 12.0 if heavy else 5.0
    from fjmon import specs as S

    ops = S.ops_in(it["spec"])
    c = 1.0 + 0.3 * S.size_of(it["spec"])
    if ops & {"MAF", "Coupling", "Scan"}:
        c += 1.5
    if "BNAF" in ops:
        c += 6.0 if it["orient"] == "as_is" else 2.0
    return c


MON = {"on": True}


def install_leaf_monitors(counts):
    """Count, at the real leaf methods, how often an input equals a value the leaf branches on."""
    import jax
    import jax.numpy as jnp
    from flowjax.bijections import LeakyTanh, RationalQuadraticSpline

    def bump(name):
        def cb(flags):
            counts[name] = counts.get(name, 0) + int(np.sum(flags))
        return cb

    for meth in ("transform", "inverse"):
        orig = getattr(RationalQuadraticSpline, meth)

        def wrapped(self, x, condition=None, _orig=orig, _m=meth):
            if MON["on"]:
                xx = jnp.asarray(x)
                jax.debug.callback(bump(f"leaf_hit_spline_end_in_{_m}"), (xx == self.interval[0]) | (xx == self.interval[1]))
            return _orig(self, x, condition)

        setattr(RationalQuadraticSpline, meth, wrapped)
    for meth in ("transform", "inverse"):
        orig = getattr(LeakyTanh, meth)

        def wrapped2(self, x, condition=None, _orig=orig, _m=meth):
            if MON["on"]:
                xx = jnp.abs(jnp.asarray(x))
                if _m == "transform":
                    flags = xx == self.max_val
                else:
                    flags = (xx == float(np.tanh(self.max_val))) | (xx == 1.0)
                jax.debug.callback(bump(f"leaf_hit_leaky_switch_in_{_m}"), flags)
            return _orig(self, x, condition)

        setattr(LeakyTanh, meth, wrapped2)


def run_shard(shard):
    import equinox as eqx
    import jax
    import jax.numpy as jnp
    import jax.random as jr
    from fjmon import bijbundle as BB
    from fjmon import env
    from fjmon.bijcheck import Recorder
    from fjmon.common import chash, jsonable, partition_trainable, perturb

    x64 = shard.get("x64", True)
    fdt = np.float64 if x64 else np.float32
    rec = Recorder(shard, "C18")
    hits = {}
    install_leaf_monitors(hits)
    rng = np.random.default_rng([shard["seed"], 18, shard.get("shard", 0), int(x64)])
    modes = [tuple(shard["only_mode"])] if shard.get("only_mode") else [("init", 0.0), ("sigma", 0.5), ("sigma", 1.5)]

    def make_bundle(cshape, with_grads=True):
        def one(d, x, c):
            lp = d.log_prob(x, c)
            if not with_grads:
                return {"lp": lp, "gx_finite": jnp.array(True), "gx": jnp.zeros_like(x), "bad_leaf": jnp.zeros((0,), bool),
                        "gnorm": 0.0}
            gx = jax.grad(lambda v: d.log_prob(v, c))(x)
            params, static = partition_trainable(d)
            gp = jax.grad(lambda p: eqx.combine(p, static).log_prob(x, c))(params)
            leaves = jax.tree_util.tree_leaves(gp)
            bad_leaf = jnp.stack([~jnp.isfinite(l).all() for l in leaves]) if leaves else jnp.zeros((0,), bool)
            return {"lp": lp, "gx_finite": jnp.isfinite(gx).all(), "gx": gx, "bad_leaf": bad_leaf,
                    "gnorm": sum((jnp.abs(jnp.nan_to_num(l)).max() for l in leaves if l.size), 0.0) if leaves else 0.0}

        def run(d, xs, cs):
            if cshape is None:
                return jax.vmap(lambda x: one(d, x, None))(xs)
            return jax.vmap(lambda x, c: one(d, x, c))(xs, cs)

        return _J(eqx.filter_jit(run), run)

    class _J:
        def __init__(self, j, raw):
            self.j, self.__wrapped__ = j, raw

        def __call__(self, *a):
            return self.j(*a)

    if shard.get("support"):
        _support_pass(shard, rec, make_bundle, rng, fdt, x64)
    for it in shard["items"]:
        try:
            d0, meta = distgen.build_dist(it, jr.PRNGKey(it["bseed"]))
        except Exception as e:  # noqa: BLE001
            if not env.shim_ok():
                rec.inconclusive.append("structure not buildable without shim")
                continue
            rec.violation(f"build.{type(e).__name__}", f"constructor raised {type(e).__name__}: {str(e)[:200]}", it, ("init", 0.0), {})
            continue
        rec.count("distributions")
        rec.count("origin_" + it["origin"])
        for o in meta["ops"]:
            rec.count("op_" + o)
        numeric_lp = bool(meta.get("logprob_numeric"))
        MON["on"] = False  # host callbacks only in the dedicated (un-vmapped) hit-measurement pass below
        run = make_bundle(meta["cond_shape"], with_grads=not numeric_lp)
        if numeric_lp:
            rec.count("distributions_logprob_via_bisection_gradients_not_applicable")
        # hand-built conditioner layers whose transformer has an unbounded scale (plain Affine/Scale, no minimum
        # scale as the flow factories use): scale underflow at |x| ~ 1e3 or heavily perturbed weights is a modelling
        # hazard of that choice, not a branch-boundary defect -> moderate inputs / parameters only
        fragile = it["kind"] == "tspec" and any(o in ("transformer:Affine", "transformer:Scale") for o in meta["ops"])
        # (float32: softplus of the unconstrained scale underflows to 0 below -88 instead of -745, reached by much smaller inputs)
        big = (30.0 if x64 else 6.0) if fragile else 1e4
        z = np.zeros(meta["shape"], dtype=int)
        t_struct = time.time()
        for mode in modes:
            if mode[1] > 0.5 and (meta["planar"] or fragile):
                mode = (mode[0], 0.5)
            d = d0 if mode[0] == "init" else perturb(d0, mode[1], it["bseed"] + int(mode[1] * 1000), clip=8.0)
            crit = {k: list(v) for k, v in meta["crit0"].items()}
            BB.criticals_from_object(d, crit)
            xs, xcrit, xhits = BB.make_points(z, crit, rng, fdt, n_rand=30, n_crit=60, n_big=8, big=big)
            if fragile:
                xs = np.clip(xs, -big, big)
            cs = None
            if meta["cond_shape"] is not None:
                cs = rng.standard_normal((len(xs), *meta["cond_shape"])).astype(fdt)
                cs[::7] = 0.0
            # inner leaves of flows / compositions: pull their branch values back through the library's own maps
            # (log_prob applies the bijection's inverse first)
            if mode[0] != "init" and mode[1] <= 1.0 and not numeric_lp and (it["kind"] == "flow" or it.get("spec", {}).get("op") in ("Chain", "Scan", "Invert")):
                from fjmon import pullback as PB

                pp, pc, st = PB.pulled_back_points(d.bijection, "inv", meta["cond_shape"], rng, fdt, max_steps=2, max_points=8)
                for k_, v_ in st.items():
                    rec.count(k_, v_)
                slots = np.where(xcrit)[0][::-1][: len(pp)]
                for j_, sl in enumerate(slots):
                    xs[sl] = pp[j_]
                    xhits[sl] = {"pulled_back_inner_critical"}
                    if cs is not None and pc is not None and pc[j_] is not None:
                        cs[sl] = pc[j_]
            if mode[0] == "init" and not numeric_lp:
                # hit measurement: which exact branch values do the *inner* leaves see for the critical-directed inputs?
                MON["on"] = True
                try:
                    lp_only = eqx.filter_jit(lambda dd, xx, cc: dd.log_prob(xx, cc))
                    idx = np.where(xcrit)[0][:12]
                    for i in idx:
                        lp_only(d, jnp.asarray(xs[i]), None if cs is None else jnp.asarray(cs[i]))
                    jax.effects_barrier()
                    rec.count("hit_measurement_calls", len(idx))
                except Exception:  # noqa: BLE001 - the main bundle below reports library exceptions
                    pass
                MON["on"] = False
            try:
                try:
                    out = run(d, jnp.asarray(xs), None if cs is None else jnp.asarray(cs))
                except jax.errors.NonConcreteBooleanIndexError:
                    # tracing with the model as an argument fails for boolean-mask Partial (C14's finding):
                    # fall back to closing over the model
                    rec.count("traced_only_as_closure")
                    out = jax.jit(lambda a, b_: run.__wrapped__(d, a, b_))(jnp.asarray(xs), None if cs is None else jnp.asarray(cs))
                out = {k: np.asarray(v) for k, v in out.items()}
                jax.effects_barrier()
            except Exception as e:  # noqa: BLE001
                rec.violation(f"exception.{type(e).__name__}", f"{meta['name']} [{mode}]: log_prob/grad raised {type(e).__name__}: {str(e)[:300]}",
                              it, mode, {"exception": str(e)[:1500]})
                continue
            N = len(xs)
            rec.evals += N
            for hs in xhits:
                for h in hs:
                    rec.count("input_hit_" + h)
            lp = out["lp"].astype(np.float64)
            fin_raw = np.isfinite(lp)
            lpmax = 1e8 if x64 else 1e5
            # beyond lpmax: float overflow regime (counted, not judged) - except a value that is *exactly* the most negative finite
            # float: no computation lands there, it is an infinity that was clipped, and it claims to be finite
            sat = lp == -float(np.finfo(fdt).max)
            rec.count("logprob_exactly_most_negative_float", int(sat.sum()))
            fin = fin_raw & ((np.abs(lp) <= lpmax) | sat)
            rec.count("logprob_finite_but_overflow_regime_gated", (fin_raw & ~fin).sum())
            rec.count("logprob_finite", fin.sum())
            rec.count("logprob_minus_inf", np.isneginf(lp).sum())
            base = chash(it.get("spec") or it.get("case"), it.get("orient"), it["base"], it["bseed"], list(mode))

            def det(i, **kw):
                dd = {"x": xs[i], "condition": None if cs is None else cs[i], "log_prob": lp[i], "hits": sorted(xhits[i]),
                      "dtype": "float64" if x64 else "float32", "name": meta["name"]}
                dd.update(kw)
                return dd

            nanlp = np.isnan(lp) | np.isposinf(lp)
            if nanlp.any():
                i = int(np.where(nanlp)[0][0])
                rec.violation("logprob.nan", f"{meta['name']} [{mode}]: log_prob returned {lp[i]} at x={xs[i].tolist()}", it, mode, det(i))
            badx = fin & ~out["gx_finite"]
            if badx.any():
                i = int(np.where(badx)[0][0])
                rec.violation("grad.input", f"{meta['name']} [{mode}]: log_prob={lp[i]:.6g} is finite but its gradient w.r.t. the input is "
                                            f"{out['gx'][i].tolist()} at x={xs[i].tolist()} ({int(badx.sum())} of {N} points)",
                              it, mode, det(i, grad_x=out["gx"][i]))
            bl = out["bad_leaf"]
            badp = fin & (bl.any(1) if bl.size else np.zeros(N, bool))
            if badp.any():
                i = int(np.where(badp)[0][0])
                rec.violation("grad.params", f"{meta['name']} [{mode}]: log_prob={lp[i]:.6g} is finite but {int(bl[i].sum())} of {bl.shape[1]} "
                                             f"parameter-gradient leaves are non-finite at x={xs[i].tolist()} ({int(badp.sum())} of {N} points)",
                              it, mode, det(i, bad_leaf_indices=np.where(bl[i])[0]))
            nt = fin & (xcrit | (mode[0] != "init"))
            rec.count("nontrivial_cases_total", nt.sum())
            rec.count("gradient_checks", 2 * int(fin.sum()))
            for i in np.where(nt)[0][:: max(1, int(nt.sum()) // 8)][:8]:
                rec.nontrivial.add(chash(base, int(i)))
            if len(rec.samples) < 4 and nt.any() and it["origin"] in ("flow", "random"):
                i = int(np.where(nt & xcrit)[0][0]) if (nt & xcrit).any() else int(np.where(nt)[0][0])
                rec.samples.append(jsonable({"distribution": meta["name"], "param_mode": mode, "x": xs[i], "log_prob": lp[i],
                                             "grad_x": out["gx"][i], "param_grad_leaves": int(bl.shape[1]), "hits": sorted(xhits[i])}))
        rec.maxi("seconds_per_distribution", time.time() - t_struct) if False else None
    for k, v in hits.items():
        rec.count(k, v)
    out = rec.result()
    if shard.get("support") and not shard.get("replay"):
        out["required"] = {"support_gradient_checks": rec.counters.get("support_gradient_checks", 0)}
        return out
    if not shard.get("replay"):
        out["required"] = {"gradient_checks": rec.counters.get("gradient_checks", 0),
                           "leaf_hit_spline_end": sum(v for k, v in hits.items() if "spline_end" in k),
                           "leaf_hit_leaky_switch": sum(v for k, v in hits.items() if "leaky" in k)}
    return out


def _support_pass(shard, rec, make_bundle, rng, fdt, x64):
    """Restricted supports: log_prob is never NaN (inside, on the edge of, or outside the support) and a finite log_prob has
    finite gradients w.r.t. the input and every trainable parameter."""
    import equinox as eqx
    import jax
    import jax.numpy as jnp
    import flowjax.bijections as B
    import flowjax.distributions as D
    from fjmon.common import chash, jsonable, perturb

    J = lambda a: jnp.asarray(np.asarray(a, dtype=fdt))
    pos = lambda: np.concatenate([np.exp(rng.normal(size=12) * s_) for s_ in (0.1, 1.0, 3.0)] +
                                 [np.array([1e-30, 1e-8, 1e-3, 20.0, 40.0, 41.0, 60.0, 88.0, 89.0, 100.0, 500.0, 709.0, 710.0, 800.0, 1e3, 3e3, 1e4, 1e6]),
                                  np.array([0.0, -0.0, -1e-30, -1.0, -50.0, -1e4])])
    unit = lambda: np.concatenate([np.tanh(rng.normal(size=24) * 2), np.array([0.0, 1.0, -1.0, 1 - 1e-12, -1 + 1e-12, 1 - 1e-6, np.nextafter(1.0, 0), -np.nextafter(1.0, 0),
                                                                               1.0000001, -1.5, 30.0, -1e4])])
    cases = [
        ("LogNormal(0.2, 0.8)", lambda: D.LogNormal(J(0.2), J(0.8)), pos),
        ("LogNormal((3,))", lambda: D.LogNormal(J([0.0, 1.0, -1.0]), J([0.5, 1.0, 2.0])), pos),
        ("Exponential(1.7)", lambda: D.Exponential(J(1.7)), pos),
        ("Exponential((2,))", lambda: D.Exponential(J([0.01, 30.0])), pos),
        ("Transformed(StandardNormal, SoftPlus)", lambda: D.Transformed(D.StandardNormal(()), B.SoftPlus(())), pos),
        ("Transformed(Normal(900, 2000), SoftPlus)", lambda: D.Transformed(D.Normal(J(900.0), J(2000.0)), B.SoftPlus(())), pos),
        ("Transformed(Cauchy(), SoftPlus)", lambda: D.Transformed(D.Cauchy(J(0.0), J(1.0)), B.SoftPlus(())), pos),
        ("Transformed(Normal((2,)), Chain[Affine, SoftPlus])", lambda: D.Transformed(D.Normal(J([0.0, 1.0]), J([1.0, 50.0])), B.Chain([B.Affine(J([0.5, -1.0]), J([2.0, 0.3])), B.SoftPlus((2,))])), pos),
        ("Transformed(StandardNormal, Exp)", lambda: D.Transformed(D.StandardNormal(()), B.Exp(())), pos),
        ("Transformed(StudentT(3), Exp)", lambda: D.Transformed(D.StudentT(J(3.0), J(0.0), J(1.0)), B.Exp(())), pos),
        ("Transformed(Exponential, Invert(Exp))", lambda: D.Transformed(D.Exponential(J(1.3)), B.Invert(B.Exp(()))), lambda: np.concatenate([rng.normal(size=24) * 3, np.array([-800.0, -100.0, 0.0, 50.0, 700.0, 720.0])])),
        ("Transformed(Normal, Tanh)", lambda: D.Transformed(D.Normal(J(0.3), J(1.5)), B.Tanh(())), unit),
        ("Transformed(Normal((2,)), Tanh)", lambda: D.Transformed(D.Normal(J([0.0, -1.0]), J([1.0, 4.0])), B.Tanh((2,))), unit),
        ("Transformed(Logistic, Chain[Tanh, Affine])", lambda: D.Transformed(D.Logistic(J(0.0), J(1.0)), B.Chain([B.Tanh(()), B.Affine(J(1.0), J(2.0))])),
         lambda: 1.0 + 2.0 * unit()),
        ("Uniform(-1, 2.5)", lambda: D.Uniform(J(-1.0), J(2.5)), lambda: np.concatenate([rng.uniform(-1, 2.5, size=16), np.array([-1.0, 2.5, np.nextafter(-1.0, -2), np.nextafter(2.5, 3), -3.0, 7.0, 1e6])])),
        ("Uniform((2,))", lambda: D.Uniform(J([0.0, -5.0]), J([1e-3, 5.0])), lambda: np.concatenate([rng.uniform(0, 1e-3, size=16), np.array([0.0, 1e-3, -1e-9, 2e-3, 4.0])])),
    ]
    for ci, (name, build, gen) in enumerate(cases):
        it = {"kind": "support", "name": name, "index": ci, "origin": "support", "dtype": "float64" if x64 else "float32"}
        only = shard.get("items")
        try:
            d0 = build()
        except Exception as e:  # noqa: BLE001
            rec.violation(f"build.{type(e).__name__}", f"{name}: constructor raised {type(e).__name__}: {str(e)[:200]}", it, ("init", 0.0), {})
            continue
        run = make_bundle(None)
        for mode in [("init", 0.0), ("sigma", 0.5)]:
            d = d0 if mode[0] == "init" else perturb(d0, mode[1], 77 + ci, clip=6.0)
            pts = np.asarray(gen(), dtype=np.float64)
            if d.shape:
                pts = np.stack([pts] + [np.roll(pts, 7 * (k + 1)) for k in range(int(np.prod(d.shape)) - 1)], -1).reshape((len(pts),) + tuple(d.shape))
            xs = pts.astype(fdt)
            try:
                out = {k: np.asarray(v) for k, v in run(d, jnp.asarray(xs), None).items()}
            except Exception as e:  # noqa: BLE001
                rec.violation(f"exception.{type(e).__name__}", f"{name} [{mode}]: log_prob/grad raised {type(e).__name__}: {str(e)[:300]}", it, mode, {})
                continue
            N = len(xs)
            rec.evals += N
            lp = out["lp"].astype(np.float64)
            sat = lp == -float(np.finfo(fdt).max)  # an infinity clipped to the most negative float claims to be finite
            rec.count("logprob_exactly_most_negative_float", int(sat.sum()))
            fin = np.isfinite(lp) & ((np.abs(lp) <= (1e8 if x64 else 1e5)) | sat)
            rec.count("support_logprob_finite", int(fin.sum()))
            rec.count("support_logprob_minus_inf", int(np.isneginf(lp).sum()))
            rec.count("support_gradient_checks", 2 * int(fin.sum()))
            nanlp = np.isnan(lp) | np.isposinf(lp)
            det = lambda i: {"x": xs[i], "log_prob": lp[i], "name": name, "dtype": it["dtype"]}
            if nanlp.any():
                i = int(np.where(nanlp)[0][0])
                rec.violation("logprob.nan", f"{name} [{mode}]: log_prob returned {lp[i]} at x={xs[i].tolist()}", it, mode, det(i))
            badx = fin & ~out["gx_finite"]
            if badx.any():
                i = int(np.where(badx)[0][0])
                rec.violation("grad.input", f"{name} [{mode}] ({it['dtype']}): log_prob={lp[i]:.6g} is finite but its gradient w.r.t. the input is {out['gx'][i].tolist()} at "
                                            f"x={xs[i].tolist()} ({int(badx.sum())} of {N} points)", it, mode, det(i))
            bl = out["bad_leaf"]
            badp = fin & (bl.any(1) if bl.size else np.zeros(N, bool))
            if badp.any():
                i = int(np.where(badp)[0][0])
                rec.violation("grad.params", f"{name} [{mode}] ({it['dtype']}): log_prob={lp[i]:.6g} is finite but {int(bl[i].sum())} of {bl.shape[1]} parameter-gradient leaves "
                                             f"are non-finite at x={xs[i].tolist()} ({int(badp.sum())} of {N} points)", it, mode, det(i))
            for i in np.where(fin)[0][:: max(1, int(fin.sum()) // 6)][:6]:
                rec.nontrivial.add(chash("support", name, list(mode), x64, int(i)))
            if len(rec.samples) < 3 and fin.any():
                i = int(np.where(fin)[0][-1])
                rec.samples.append(jsonable({"distribution": name, "param_mode": mode, "x": xs[i], "log_prob": lp[i], "grad_x": out["gx"][i]}))
