"""C11 - constrained parameters stay valid for every unconstrained value.

Invariant monitor: predicates written from the docstrings are evaluated on `unwrap(obj)` (NumPy float64)
 (i) after construction with generated arguments (round trip against the arguments),
 (ii) after every raw trainable leaf has been assigned arbitrary values in the box |raw| <= 50 (uniform, corners, mixed),
 (iii) after every update of real fit_to_data / fit_to_variational_target runs with aggressive optimisers - the
      harness rebinds `step` in the training modules to a wrapper that evaluates the predicates on the current
      (params, static) (invariant at a hook, previous state in hand),
 (iv) invalid constructor arguments at the edge of validity must be rejected (any exception)."""
from __future__ import annotations

import math

import numpy as np

PROPERTY = "C11"
LEVEL = "exploration"
NEEDS_SHIM = True
RULE = ("objects {Affine, Scale, TriangularAffine, StudentT, Exponential, Uniform, VmapMixture, RationalQuadraticSpline (knots 1-8, several "
        "intervals / min_derivative / softmax_adjust), Planar (un/conditional), BlockAutoregressiveNetwork layers, triangular_spline_flow and "
        "the other factories, _affine_with_min_scale} x {constructor round trip with magnitudes 1e-6..1e6; raw leaves uniform in the box, "
        "+-50 corner patterns, mixed; training histories with sgd lr 10 / adam lr 1 / +1-everywhere optimisers checked after every step; "
        "invalid arguments at the edge of validity}. A case = (object, raw assignment or history step or argument set); non-trivial = a raw "
        "assignment / history step (not the as-constructed state); distinct = hashed (object kind, assignment bytes)")
ASSUMPTIONS = [
    "the planar predicate is evaluated only where the constraint is representable: w.u >= -30 (float64) / -12 (float32); below that "
    "1+softplus(w.u) rounds to 1 and no implementation of the paper's parameterisation can keep w.u_hat > -1 (pairs are rescaled)",
    "spline strict monotonicity is required for softmax_adjust >= 1e-3 (the default is 1e-2); softmax_adjust = 0 is the documented "
    "'no adjustment' and is only checked for non-decreasing knots",
    "history steps whose raw parameters left the box |raw| <= 50 or became non-finite are not judged (counted)",
    "float32 pass: raw box |raw| <= 20 (at 50 squares/products of constrained values underflow into the flushed denormal range)",
    "an invalid argument counts as rejected when any exception is raised",
]
ANCHOR_FILES = ["wrappers.py", "bijections/affine.py", "bijections/rational_quadratic_spline.py", "bijections/planar.py", "distributions.py",
                "bijections/utils.py", "flows.py"]
REQUIRED_FUNCS = ["wrappers.py:BijectionReparam.unwrap", "wrappers.py:_apply_inverse_and_check_valid", "wrappers.py:WeightNormalization.unwrap",
                  "wrappers.py:Lambda.unwrap", "wrappers.py:Where.unwrap", "bijections/rational_quadratic_spline.py:_real_to_increasing_on_interval",
                  "bijections/planar.py:_UnconditionalPlanar.get_act_scale", "flows.py:_affine_with_min_scale",
                  "distributions.py:VmapMixture.__init__", "distributions.py:_StandardStudentT.__init__", "bijections/utils.py:Permute.__init__"]


def plan(tier, seed):
    nsh = 16
    reps = 3 if tier != "thorough" else 40
    hist = 1 if tier != "thorough" else 4
    shards = [{"name": f"C11-{i}", "shard": i, "nshards": nsh, "reps": reps, "histories": hist, "x64": True, "timeout": 3400} for i in range(nsh)]
    # float32 pass (the library's default precision): constructor round trips lose digits first there
    nf = 4 if tier == "thorough" else 2
    shards += [{"name": f"C11-f32-{i}", "shard": 100 + 4 * i, "nshards": nf, "reps": 20 if tier == "thorough" else 2, "histories": 0, "x64": False, "opart": i, "timeout": 3400}
               for i in range(nf)]
    return shards


def run_shard(shard):
    import equinox as eqx
    import jax
    import jax.numpy as jnp
    import jax.random as jr
    import optax
    import flowjax.bijections as B
    import flowjax.distributions as D
    import flowjax.flows as F
    import flowjax.train.data_fit as data_fit
    import flowjax.train.variational_fit as variational_fit
    import flowjax.train.train_utils as tu
    from flowjax import wrappers as W
    from flowjax.bijections.planar import _UnconditionalPlanar
    from flowjax.train.losses import ElboLoss
    from flowjax.wrappers import unwrap
    from fjmon import env
    from fjmon.bijcheck import Recorder
    from fjmon.common import chash, jsonable, partition_trainable, set_leaves

    x64 = shard.get("x64", True)
    fdt = np.float64 if x64 else np.float32
    rtol = 1e-9 if x64 else 1e-5
    wu_min = -30.0 if x64 else -12.0
    rec = Recorder(shard, "C11")
    rng = np.random.default_rng([shard["seed"], 11, shard["shard"]])
    A = lambda a: jnp.asarray(np.asarray(a), dtype=fdt)
    f64 = lambda a: np.asarray(a, dtype=np.float64)

    # ------------------------------------------------------------------ predicates -------
    def is_node(n):
        return isinstance(n, (B.RationalQuadraticSpline, B.Planar, _UnconditionalPlanar, D._StandardStudentT, D.VmapMixture, W.WeightNormalization))

    def invariants(model, tag, cond_samples=None):
        """-> list of (mechanism, message).  Evaluated on the raw tree (wrappers visible) and on its unwrapped value."""
        bad = []
        try:
            u = unwrap(model)
        except Exception as e:  # noqa: BLE001
            return [("unwrap.exception", f"{tag}: unwrap raised {type(e).__name__}: {str(e)[:150]}")]
        # weight-normalised rows keep their norm parameter (needs the wrapper node itself)
        for node in jax.tree_util.tree_leaves(model, is_leaf=lambda n: isinstance(n, W.WeightNormalization)):
            if isinstance(node, W.WeightNormalization):
                # vmapped construction: arrays carry leading axes; unwrap() vectorises over them
                val = f64(unwrap(node))
                sc = f64(unwrap(node.scale))
                norms = np.linalg.norm(val, axis=-1, keepdims=True)
                rec.count("pred_weightnorm_rows", int(norms.size))
                if not np.all(np.abs(norms - sc) <= max(rtol, 1e-7 if not x64 else rtol) * 10 * (1 + np.abs(sc))) or not np.all(sc > 0):
                    bad.append(("weightnorm.row_norm", f"{tag}: weight-normalised row norms {norms.ravel()[:4].tolist()} != scale parameter {sc.ravel()[:4].tolist()}"))
        for node in jax.tree_util.tree_leaves(u, is_leaf=lambda n: isinstance(n, (B.Affine, B.Scale, B.TriangularAffine, B.RationalQuadraticSpline, B.Planar,
                                                                               _UnconditionalPlanar, D._StandardStudentT, D.VmapMixture, B.BlockAutoregressiveNetwork))):
            if isinstance(node, (B.Affine, B.Scale)):
                sc = f64(node.scale)
                rec.count("pred_scale_positive", int(sc.size))
                if not np.all(sc > 0):
                    bad.append(("scale.not_positive", f"{tag}: {type(node).__name__} scale {sc.ravel()[:5].tolist()} is not strictly positive"))
            elif isinstance(node, B.TriangularAffine):
                tri = f64(node.triangular)
                dg = np.diagonal(tri, axis1=-2, axis2=-1)
                rec.count("pred_triangular_diag_positive", int(dg.size))
                if not np.all(dg > 0):
                    bad.append(("triangular.diag_not_positive", f"{tag}: triangular diagonal {dg.ravel()[:5].tolist()} is not strictly positive"))
                other = np.triu(tri, 1) if node.lower else np.tril(tri, -1)
                if np.any(other != 0):
                    bad.append(("triangular.not_triangular", f"{tag}: entries outside the requested triangle are non-zero"))
            elif isinstance(node, D._StandardStudentT):
                df = f64(node.df)
                rec.count("pred_df_positive", int(df.size))
                if not np.all(df > 0):
                    bad.append(("df.not_positive", f"{tag}: degrees of freedom {df.ravel()[:5].tolist()} not strictly positive"))
            elif isinstance(node, D.VmapMixture):
                lw = f64(node.log_normalized_weights)
                rec.count("pred_mixture_normalised")
                tot = np.log(np.sum(np.exp(lw - lw.max()))) + lw.max()
                if not np.all(np.isfinite(lw)) or abs(tot) > 1e-9 * len(lw) + (0 if x64 else 1e-5):
                    bad.append(("mixture.not_normalised", f"{tag}: mixture weights exp({lw.tolist()}) sum to exp({tot})"))
            elif isinstance(node, B.RationalQuadraticSpline):
                K = node.knots
                xp, yp, dd = (f64(a).reshape(-1, K + 2) for a in (node.x_pos, node.y_pos, node.derivatives))
                lo, hi = float(node.interval[0]), float(node.interval[1])
                rec.count("pred_spline_knots", int(xp.shape[0]))
                strict = node.softmax_adjust >= 1e-3
                for nm, p in (("x", xp), ("y", yp)):
                    dif = np.diff(p, axis=1)
                    # softmax_adjust = 0 ("no adjustment"): widths may underflow and the cumulative sum may overshoot
                    # the interval end by rounding - only non-decreasing up to rounding is required there
                    okm = np.all(dif > 0) if strict else np.all(dif >= -(1e-12 if x64 else 1e-5) * (abs(lo) + abs(hi) + 1))
                    if not okm or not np.all(np.abs(p[:, 0] - lo) <= 1e-12 * (1 + abs(lo))) or not np.all(np.abs(p[:, -1] - hi) <= 1e-12 * (1 + abs(hi))):
                        j = int(np.argmin(dif.min(1)))
                        bad.append(("spline.knots", f"{tag}: {nm}-knots {p[j].tolist()} are not strictly increasing from {lo} to {hi}"))
                        break
                if not np.all(dd >= node.min_derivative * (1 - 1e-12)):
                    bad.append(("spline.min_derivative", f"{tag}: spline derivative {dd.min()} < min_derivative {node.min_derivative}"))
            elif isinstance(node, (B.Planar, _UnconditionalPlanar)):
                planars = []
                if isinstance(node, _UnconditionalPlanar):
                    planars.append(node)
                elif node.cond_shape is None:
                    flatp = f64(node.params).reshape(-1, node.params.shape[-1])
                    for prm in flatp:
                        d = node.shape[0]
                        planars.append(_UnconditionalPlanar(A(prm[:d]), A(prm[d:2 * d]), A(prm[-1]), node.negative_slope))
                else:
                    for c in (cond_samples if cond_samples is not None else rng.standard_normal((3, *node.cond_shape))):
                        try:
                            planars.append(node.get_planar(A(c)))
                        except Exception:  # noqa: BLE001 - stacked (vmapped) conditional planar: skip
                            break
                for pl in planars:
                    w, u0 = f64(pl.weight), f64(pl._act_scale)
                    if not (np.all(np.isfinite(w)) and np.all(np.isfinite(u0))):
                        continue
                    wu = float(w @ u0)
                    if wu < wu_min:
                        rec.count("pred_planar_skipped_unrepresentable")
                        continue
                    uh = f64(pl.get_act_scale())
                    rec.count("pred_planar_invertible")
                    for s_ in ([1.0] if pl.negative_slope is None else [1.0, float(pl.negative_slope)]):
                        if not (np.all(np.isfinite(uh)) and 1 + s_ * float(w @ uh) > 0):
                            bad.append(("planar.not_invertible", f"{tag}: planar with w={w.tolist()} u={u0.tolist()} has u_hat={uh.tolist()}, 1 + {s_} w.u_hat = "
                                                                 f"{1 + s_ * float(w @ uh) if np.all(np.isfinite(uh)) else 'nan'} <= 0 or non-finite"))
                            break
            elif isinstance(node, B.BlockAutoregressiveNetwork):
                from flowjax import masks

                for li, (lin, _) in enumerate(node.layers):
                    Wm = f64(lin.weight)
                    n_blocks = node.shape[0]
                    bs = (Wm.shape[-2] // n_blocks, Wm.shape[-1] // n_blocks)
                    dm = np.asarray(masks.block_diag_mask(bs, n_blocks))
                    tm = np.asarray(masks.block_tril_mask(bs, n_blocks))
                    rec.count("pred_bnaf_block_structure")
                    Wf = Wm.reshape(-1, *Wm.shape[-2:])
                    if not np.all(Wf[:, dm] > 0) or np.any(Wf[:, ~tm] != 0):
                        bad.append(("bnaf.block_structure", f"{tag}: BNAF layer {li}: block-diagonal weights not strictly positive or weights above the block triangle"))
        return bad

    def conditioner_layer_invariants(model, tag):
        """Effective transformers of coupling / masked-autoregressive layers (built from the conditioner's output at run time, so
        not nodes of the model tree): their scales must be strictly positive and, for the factories' default transformer, at least
        the configured minimum scale - whatever the conditioner weights are."""
        from fjmon.pullback import steps_of

        bad = []
        root = getattr(model, "bijection", None)
        if root is None or not isinstance(model, D.AbstractDistribution):
            return bad
        try:
            steps = steps_of(root)
        except Exception:  # noqa: BLE001
            return bad
        for st in steps:
            core = st.bijection if isinstance(st, B.Invert) else st
            if not isinstance(core, (B.MaskedAutoregressive, B.Coupling)):
                continue
            try:
                u = unwrap(core)
                dim = core.shape[0]
                x = A(rng.standard_normal(dim) * 2)
                c = None if core.cond_shape is None else A(rng.standard_normal(core.cond_shape))
                if isinstance(core, B.MaskedAutoregressive):
                    nn_in = x if c is None else jnp.hstack((x, c))
                    prm = u.masked_autoregressive_mlp(nn_in)
                else:
                    xc = x[: core.untransformed_dim]
                    prm = u.conditioner(xc if c is None else jnp.hstack((xc, c)))
                tr = unwrap(core._flat_params_to_transformer(prm))
                t0 = core.transformer_constructor(jnp.zeros(prm.shape[0] // (dim if isinstance(core, B.MaskedAutoregressive) else dim - core.untransformed_dim)))
            except Exception:  # noqa: BLE001
                continue
            inner = tr.bijection
            if hasattr(inner, "scale"):
                sc = f64(inner.scale)
                rec.count("pred_conditioner_transformer_scale", int(sc.size))
                min_scale = 0.0
                rp = getattr(t0, "scale", None)
                if isinstance(rp, W.BijectionReparam) and isinstance(rp.bijection, B.Chain):
                    for m_ in rp.bijection.bijections:
                        m_u = unwrap(m_)
                        if isinstance(m_u, B.Loc):
                            min_scale = float(np.asarray(m_u.loc))
                if np.all(np.isfinite(sc)) and not (np.all(sc > 0) and np.all(sc >= min_scale * (1 - 1e-6))):
                    bad.append(("conditioner.scale", f"{tag}: {type(core).__name__} transformer scale {sc.ravel()[:4].tolist()} is not positive / below the configured "
                                                      f"minimum scale {min_scale}"))
        return bad

    def box_ok(model, lim=50.0):
        p, _ = partition_trainable(model)
        leaves = jax.tree_util.tree_leaves(p)
        return all(np.all(np.isfinite(np.asarray(l))) and np.all(np.abs(np.asarray(l)) <= lim) for l in leaves)

    def report(bad, it, extra=None):
        for mech, msg in bad[:2]:
            rec.violation(mech, msg, it, ("init", 0.0), extra or {})

    # ------------------------------------------------------------------ objects -----------
    def objects():
        """(name, builder(key) -> object)"""
        O = []
        sh = lambda: tuple(int(v) for v in rng.permutation([2, 3, 5])[: int(rng.integers(0, 3))])
        O.append(("Affine", lambda k: B.Affine(jr.normal(k, s := sh()), jnp.exp(jr.normal(k, s)))))
        O.append(("Scale", lambda k: B.Scale(jnp.exp(jr.normal(k, sh())))))
        for lower in (True, False):
            O.append((f"TriangularAffine(lower={lower})", lambda k, lower=lower: B.TriangularAffine(jr.normal(k, (4,)), jnp.eye(4) * 1.5 + 0.3 * jr.normal(k, (4, 4)), lower=lower)))
        O.append(("StudentT", lambda k: D.StudentT(jnp.exp(jr.normal(k, (3,))), jnp.zeros(3), jnp.ones(3))))
        O.append(("Exponential", lambda k: D.Exponential(jnp.exp(jr.normal(k, (3,))))))
        O.append(("Normal", lambda k: D.Normal(jr.normal(k, (2, 3)), jnp.exp(jr.normal(k, (2, 3))))))
        O.append(("VmapMixture", lambda k: D.VmapMixture(eqx.filter_vmap(D.Normal)(jr.normal(k, (4,)), jnp.ones(4)), jnp.exp(jr.normal(k, (4,))))))
        for knots, iv, md, sa in [(1, 1, 1e-3, 1e-2), (3, (-1.0, 2.0), 1e-3, 1e-2), (5, 4, 0.1, 0.1), (8, (0.5, 3.5), 1e-3, 1e-2), (4, 0.25, 0.5, 1.0), (6, 3, 1e-3, 0.0)]:
            O.append((f"RQS(knots={knots},interval={iv},min_derivative={md},softmax_adjust={sa})",
                      lambda k, a=(knots, iv, md, sa): B.RationalQuadraticSpline(knots=a[0], interval=a[1], min_derivative=a[2], softmax_adjust=a[3])))
        O.append(("Vmap(RQS)x5", lambda k: B.Vmap(eqx.filter_vmap(lambda: B.RationalQuadraticSpline(knots=5, interval=2), axis_size=5)(), in_axes=eqx.if_array(0))))
        for d in (1, 3):
            for ns in (None, 0.2, 1.0, 2.5):
                O.append((f"Planar(dim={d},slope={ns})", lambda k, d=d, ns=ns: B.Planar(k, dim=d, negative_slope=ns)))
        O.append(("Planar(cond)", lambda k: B.Planar(k, dim=3, cond_dim=2, negative_slope=0.3, width_size=4, depth=1)))
        O.append(("Planar(cond,slope=4)", lambda k: B.Planar(k, dim=2, cond_dim=2, negative_slope=4.0, width_size=4, depth=1)))
        for dep, bd, cd in [(0, 1, None), (1, 2, None), (2, 3, 2)]:
            O.append((f"BNAF(depth={dep},block={bd},cond={cd})", lambda k, a=(dep, bd, cd): B.BlockAutoregressiveNetwork(k, dim=3, cond_dim=a[2], depth=a[0], block_dim=a[1])))
        O.append(("affine_with_min_scale", lambda k: F._affine_with_min_scale(0.05)))
        if env.shim_ok():
            O.append(("triangular_spline_flow", lambda k: F.triangular_spline_flow(k, base_dist=D.StandardNormal((3,)), flow_layers=2, knots=4)))
            O.append(("block_neural_autoregressive_flow", lambda k: F.block_neural_autoregressive_flow(k, base_dist=D.StandardNormal((2,)), flow_layers=2, nn_block_dim=2)))
        O.append(("coupling_flow(rqs)", lambda k: F.coupling_flow(k, base_dist=D.StandardNormal((3,)), flow_layers=2, nn_width=5, transformer=B.RationalQuadraticSpline(knots=4, interval=3))))
        O.append(("masked_autoregressive_flow", lambda k: F.masked_autoregressive_flow(k, base_dist=D.Normal(jnp.zeros(3), jnp.ones(3)), flow_layers=2, nn_width=5)))
        O.append(("masked_autoregressive_flow(cond,fwd)", lambda k: F.masked_autoregressive_flow(k, base_dist=D.StandardNormal((2,)), flow_layers=2, nn_width=4, cond_dim=2, invert=False)))
        O.append(("coupling_flow(default)", lambda k: F.coupling_flow(k, base_dist=D.StandardNormal((3,)), flow_layers=2, nn_width=5, cond_dim=2)))
        O.append(("planar_flow", lambda k: F.planar_flow(k, base_dist=D.StandardNormal((3,)), flow_layers=3, negative_slope=0.1)))
        return O

    def min_scale_pred(model, tag):
        """flows' default transformer: scale >= min_scale."""
        u = unwrap(model)
        sc = f64(u.scale)
        rec.count("pred_min_scale")
        return [] if np.all(sc >= 0.05) else [("min_scale", f"{tag}: scale {sc} below the configured minimum 0.05")]

    # float64: the statement's box |raw| <= 50.  float32: |raw| <= 20 - at 50 the constrained values themselves (softplus(-50) =
    # 1.9e-22) are representable but their squares / products (row norms of weight-normalised matrices, scale*w/|w|) fall into
    # the flushed-to-zero denormal range and legitimately give 0 or 0/0.
    BOX = 50.0 if x64 else 20.0

    def assign(model, kind, r):
        if kind == "uniform":
            m = set_leaves(model, lambda i, a: r.uniform(-BOX, BOX, size=a.shape))
        elif kind == "corner":
            m = set_leaves(model, lambda i, a: r.choice([-BOX, BOX], size=a.shape))
        elif kind == "mixed":
            m = set_leaves(model, lambda i, a: np.where(r.random(a.shape) < 0.3, r.choice([-BOX, BOX], size=a.shape), r.normal(size=a.shape) * 5))
        else:
            m = set_leaves(model, lambda i, a: r.normal(size=a.shape) * 3)
        # planar: keep w.u representable (rescale u) - documented resolution limit
        def fix(node):
            if isinstance(node, B.Planar) and node.cond_shape is None:
                p = np.asarray(node.params, dtype=np.float64)
                d = node.shape[0]
                P2 = p.reshape(-1, p.shape[-1]).copy()
                for row in P2:
                    wu = float(row[:d] @ row[d:2 * d])
                    if wu < wu_min * 0.9:
                        row[d:2 * d] *= (wu_min * 0.9 * r.random()) / wu
                return eqx.tree_at(lambda n: n.params, node, A(P2.reshape(p.shape)))
            return node
        return jax.tree_util.tree_map(fix, m, is_leaf=lambda n: isinstance(n, B.Planar))

    objs = objects()
    only = shard.get("items")
    for oi, (name, builder) in enumerate(objs):
        if oi % shard["nshards"] != shard.get("opart", shard["shard"]) % shard["nshards"] and not only:
            continue
        if only and only[0].get("object") != name:
            continue
        it = {"object": name, "origin": "catalogue"}
        rec.count("objects")
        try:
            model = builder(jr.PRNGKey(int(rng.integers(0, 2**31 - 1))))
        except Exception as e:  # noqa: BLE001
            rec.violation(f"build.{type(e).__name__}", f"{name}: constructor raised {type(e).__name__}: {str(e)[:200]}", it, ("init", 0.0), {})
            continue
        rec.evals += 1
        report(invariants(model, f"{name} as constructed") + conditioner_layer_invariants(model, f"{name} as constructed"), it)
        if name == "affine_with_min_scale":
            report(min_scale_pred(model, name), it)
        for rep in range(shard["reps"]):
            for kind in ("uniform", "corner", "mixed", "normal3"):
                r = np.random.default_rng([shard["seed"], 11, oi, rep, ["uniform", "corner", "mixed", "normal3"].index(kind)])
                m = assign(model, kind, r)
                rec.evals += 1
                rec.nontrivial.add(chash(name, kind, rep))
                rec.count("raw_assignments")
                bad = invariants(m, f"{name} [{kind} raw assignment #{rep}]") + conditioner_layer_invariants(m, f"{name} [{kind} raw assignment #{rep}]")
                if name == "affine_with_min_scale":
                    bad += min_scale_pred(m, name)
                report(bad, dict(it, kind=kind, rep=rep))
                if len(rec.samples) < 3 and kind == "corner" and name.startswith("RQS"):
                    u = unwrap(m)
                    rec.samples.append(jsonable({"object": name, "assignment": kind, "x_pos": f64(u.x_pos), "derivatives": f64(u.derivatives)}))

    # ------------------------------------------------------------------ constructor round trips
    if not only and shard["shard"] % 4 == 0:
        for rep in range(max(4, shard["reps"] * 2)):
            mag = float(10.0 ** rng.uniform(-6, 6))
            shp = tuple(int(v) for v in rng.permutation([2, 3])[: int(rng.integers(0, 3))])
            sc = np.exp(rng.uniform(-1, 1, size=shp)) * mag
            loc = rng.normal(size=shp) * mag
            it = {"object": "roundtrip", "origin": "generated", "mag": mag}
            checks = []
            u = unwrap(B.Affine(A(loc), A(sc)))
            checks += [("Affine.scale", f64(u.scale), sc), ("Affine.loc", f64(u.loc), loc)]
            checks.append(("Scale.scale", f64(unwrap(B.Scale(A(sc))).scale), sc))
            d = 3
            M = rng.normal(size=(d, d)) * mag
            M[np.diag_indices(d)] = np.exp(rng.uniform(-1, 1, d)) * mag
            for lower in (True, False):
                t = unwrap(B.TriangularAffine(A(np.zeros(d)), A(M), lower=lower))
                checks.append((f"TriangularAffine(lower={lower}).triangular", f64(t.triangular), np.tril(M) if lower else np.triu(M)))
            df = np.exp(rng.uniform(-2, 5, size=shp))
            checks.append(("StudentT.df", f64(D.StudentT(A(df), A(np.zeros(shp)), A(np.ones(shp))).df), df))
            checks.append(("Exponential.rate", f64(D.Exponential(A(sc)).rate), sc))
            w = np.exp(rng.uniform(-3, 3, size=4)) * mag
            mix = unwrap(D.VmapMixture(eqx.filter_vmap(D.Normal)(jnp.zeros(4), jnp.ones(4)), A(w)))
            checks.append(("VmapMixture.weights", np.exp(f64(mix.log_normalized_weights)), w / w.sum()))
            Acov = rng.normal(size=(d, d))
            cov = (Acov @ Acov.T + np.eye(d)) * min(mag, 1e4)
            checks.append(("MultivariateNormal.covariance", f64(D.MultivariateNormal(A(np.zeros(d)), A(cov)).covariance), cov))
            lo_ = rng.normal(size=shp) * min(mag, 1e3)
            uni = D.Uniform(A(lo_), A(lo_ + sc))
            checks += [("Uniform.minval", f64(uni.minval), lo_), ("Uniform.maxval", f64(uni.maxval), lo_ + sc)]
            for nm, got, want in checks:
                rec.evals += 1
                rec.count("constructor_roundtrips")
                want = np.asarray(want, dtype=np.float64)
                tolr = rtol * (100 if "covariance" in nm else 1) * (np.abs(want) + (np.abs(lo_).max() if "maxval" in nm else 0) + (np.abs(want).max() if "triangular" in nm or "covariance" in nm else 0))
                if got.shape != want.shape or not np.all(np.abs(got - want) <= tolr + (0 if x64 else 1e-30)):
                    rec.violation("roundtrip." + nm, f"{nm}: constructed with {want.ravel()[:4].tolist()} but holds {got.ravel()[:4].tolist()} (magnitude {mag:.3g})",
                                  it, ("init", 0.0), {"got": got, "want": want})

    # ------------------------------------------------------------------ invalid arguments --
    if not only and shard["shard"] % 4 == 1:
        tiny = 1e-30
        bad_calls = {
            "Affine(scale=0)": lambda: B.Affine(A(0.0), A(0.0)), "Affine(scale=-tiny)": lambda: B.Affine(A(0.0), A(-tiny)),
            "Affine(scale has one zero)": lambda: B.Affine(A(np.zeros(3)), A([1.0, 0.0, 2.0])),
            "Scale(0)": lambda: B.Scale(A(0.0)), "Scale(-1)": lambda: B.Scale(A([-1.0, 1.0])),
            "TriangularAffine(zero diagonal)": lambda: B.TriangularAffine(A(np.zeros(2)), A([[1.0, 0.0], [1.0, 0.0]])),
            "TriangularAffine(negative diagonal)": lambda: B.TriangularAffine(A(np.zeros(2)), A([[1.0, 0.0], [1.0, -1.0]])),
            "TriangularAffine(non-square)": lambda: B.TriangularAffine(A(np.zeros(2)), A(np.ones((2, 3)))),
            "StudentT(df=0)": lambda: D.StudentT(A(0.0)), "StudentT(df=-1)": lambda: D.StudentT(A([2.0, -1.0])),
            "Uniform(max=min)": lambda: D.Uniform(A(1.0), A(1.0)), "Uniform(max<min)": lambda: D.Uniform(A([0.0, 1.0]), A([1.0, 0.5])),
            "Uniform(max=nextafter(min,-))": lambda: D.Uniform(A(1.0), A(np.nextafter(fdt(1.0), fdt(0.0)))),
            "VmapMixture(weight 0)": lambda: D.VmapMixture(eqx.filter_vmap(D.Normal)(jnp.zeros(3), jnp.ones(3)), A([1.0, 0.0, 2.0])),
            "VmapMixture(weight <0)": lambda: D.VmapMixture(eqx.filter_vmap(D.Normal)(jnp.zeros(3), jnp.ones(3)), A([1.0, -tiny, 2.0])),
            "Exponential(rate<0)": lambda: D.Exponential(A(-1.0)),
            "Normal(scale=0)": lambda: D.Normal(A(0.0), A(0.0)), "Normal(scale<0)": lambda: D.Normal(A(0.0), A(-2.0)),
            "Permute(duplicate)": lambda: B.Permute(jnp.array([0, 0, 1])), "Permute(out of range)": lambda: B.Permute(jnp.array([0, 1, 3])),
            "Permute(negative)": lambda: B.Permute(jnp.array([-1, 0, 1])), "Permute(2D duplicate)": lambda: B.Permute(jnp.array([[0, 1], [1, 2]])),
            "Planar(negative_slope=0)": lambda: B.Planar(jr.PRNGKey(0), dim=2, negative_slope=0.0).get_planar(),
            "Planar(negative_slope<0)": lambda: B.Planar(jr.PRNGKey(0), dim=2, negative_slope=-0.1).get_planar(),
            "RQS(softmax_adjust<0)": lambda: unwrap(B.RationalQuadraticSpline(knots=3, interval=1, softmax_adjust=-0.1)),
        }
        for nm, fn in bad_calls.items():
            rec.evals += 1
            rec.count("invalid_argument_probes")
            rec.nontrivial.add(chash("invalid", nm))
            try:
                out = fn()
                jax.block_until_ready(jax.tree_util.tree_leaves(eqx.filter(out, eqx.is_array)))
                rec.violation("invalid_argument_accepted", f"{nm} was accepted without an error", {"object": "invalid:" + nm, "origin": "invalid"}, ("init", 0.0), {})
            except Exception:  # noqa: BLE001
                rec.count("invalid_arguments_rejected")
        # the same value constraints when the constructor runs inside a compiled function (a model built inside a jitted loss /
        # log_prob): the invalid value is a traced argument, so a check whose result is discarded is silently compiled away
        mix = lambda w: D.VmapMixture(eqx.filter_vmap(D.Normal)(jnp.zeros(3), jnp.ones(3)), w)  # noqa: E731
        traced_calls = {
            "Affine(scale=0)": (lambda s: B.Affine(A(0.0), s), (A(0.0),)),
            "Affine(scale has one zero)": (lambda s: B.Affine(A(np.zeros(3)), s), (A([1.0, 0.0, 2.0]),)),
            "Scale(-1)": (lambda s: B.Scale(s), (A([-1.0, 1.0]),)),
            "TriangularAffine(zero diagonal)": (lambda m: B.TriangularAffine(A(np.zeros(2)), m), (A([[1.0, 0.0], [1.0, 0.0]]),)),
            "StudentT(df=0)": (lambda d: D.StudentT(d), (A(0.0),)), "StudentT(df=-1)": (lambda d: D.StudentT(d), (A([2.0, -1.0]),)),
            "Uniform(max=min)": (lambda a, b: D.Uniform(a, b), (A(1.0), A(1.0))),
            "Uniform(max<min)": (lambda a, b: D.Uniform(a, b), (A([0.0, 1.0]), A([1.0, 0.5]))),
            "VmapMixture(weight 0)": (mix, (A([1.0, 0.0, 2.0]),)), "VmapMixture(weight <0)": (mix, (A([1.0, -tiny, 2.0]),)),
            "VmapMixture(all weights <0)": (mix, (A([-1.0, -1.0, -2.0]),)),
            "Exponential(rate<0)": (lambda r: D.Exponential(r), (A(-1.0),)),
            "Normal(scale=0)": (lambda s: D.Normal(A(0.0), s), (A(0.0),)), "Normal(scale<0)": (lambda s: D.Normal(A(0.0), s), (A(-2.0),)),
            "LogNormal(scale<0)": (lambda s: D.LogNormal(A(0.0), s), (A(-2.0),)), "Gumbel(scale=0)": (lambda s: D.Gumbel(A(0.0), s), (A(0.0),)),
            "Cauchy(scale<0)": (lambda s: D.Cauchy(A(0.0), s), (A(-1.0),)), "Laplace(scale=0)": (lambda s: D.Laplace(A(0.0), s), (A(0.0),)),
            "Logistic(scale<0)": (lambda s: D.Logistic(A(0.0), s), (A(-1.0),)),
        }
        for nm, (ctor, vals) in traced_calls.items():
            for how in ("constructed under filter_jit", "constructed and used inside jax.jit"):
                rec.evals += 1
                rec.count("invalid_argument_probes_traced")
                rec.nontrivial.add(chash("invalid-traced", nm, how))
                try:
                    if how.startswith("constructed under"):
                        out = eqx.filter_jit(ctor)(*vals)
                    else:
                        def use(*v, _ctor=ctor):
                            o = _ctor(*v)
                            x0 = jnp.zeros(o.shape) + 0.3
                            return o.log_prob(x0) if hasattr(o, "log_prob") else o.transform(x0)
                        out = jax.jit(use)(*vals)
                    jax.block_until_ready(jax.tree_util.tree_leaves(eqx.filter(out, eqx.is_array)))
                    rec.violation("invalid_argument_accepted.traced", f"{nm} ({how}) was accepted without an error",
                                  {"object": "invalid:" + nm, "origin": "invalid"}, ("init", 0.0), {})
                except Exception:  # noqa: BLE001
                    rec.count("invalid_arguments_rejected_traced")
        # exactly-zero planar weight vector (finite raw values): the layer must stay well defined
        for d in (1, 3):
            pl = _UnconditionalPlanar(A(np.zeros(d)), A(rng.normal(size=d)), A(0.3), 0.2)
            y = f64(pl.transform(A(rng.normal(size=d))))
            rec.evals += 1
            rec.count("planar_zero_weight_probes")
            if not np.all(np.isfinite(y)):
                rec.violation("planar.zero_weight", f"planar layer with weight vector exactly 0 (dim {d}) returns {y.tolist()} (u_hat = {f64(pl.get_act_scale()).tolist()})",
                              {"object": "planar.zero_weight", "origin": "probe"}, ("init", 0.0), {})

    # ------------------------------------------------------------------ histories ---------
    if shard.get("histories", 0) and not only:
        step_counts = {"steps_checked": 0, "steps_outside_box_or_nonfinite": 0}
        current = {"tag": None, "it": None, "viol": []}
        orig_step = tu.step

        def hooked_step(params, static, *args, **kwargs):
            out = orig_step(params, static, *args, **kwargs)
            new_params = out[0]
            model = eqx.combine(new_params, static)
            if box_ok(model):
                step_counts["steps_checked"] += 1
                bad = invariants(model, f"{current['tag']} after update #{step_counts['steps_checked']}") + \
                    conditioner_layer_invariants(model, f"{current['tag']} after update #{step_counts['steps_checked']}")
                if bad and not current["viol"]:
                    current["viol"] = bad
            else:
                step_counts["steps_outside_box_or_nonfinite"] += 1
            return out

        data_fit.step = hooked_step
        variational_fit.step = hooked_step

        def counting_opt():
            return optax.GradientTransformation(lambda p: (), lambda g, s, params=None: (jax.tree_util.tree_map(jnp.ones_like, g), s))

        opts = {"sgd_lr10": optax.sgd(10.0), "adam_lr1": optax.adam(1.0), "plus_one": counting_opt(), "sgd_lr0.5": optax.sgd(0.5)}
        hist_models = [o for o in objs if o[0] in ("coupling_flow(rqs)", "masked_autoregressive_flow", "planar_flow", "triangular_spline_flow",
                                                   "block_neural_autoregressive_flow", "Normal", "StudentT", "VmapMixture")]
        hi = 0
        for (name, builder) in hist_models:
            for oname, opt in opts.items():
                hi += 1
                if hi % shard["nshards"] != shard["shard"] % shard["nshards"]:
                    continue
                for rep in range(shard["histories"]):
                    key = jr.PRNGKey(int(rng.integers(0, 2**31 - 1)))
                    model = builder(key)
                    dim_shape = model.shape
                    current.update(tag=f"{name} trained with {oname}", it={"object": name, "optimizer": oname, "origin": "history"}, viol=[])
                    rec.evals += 1
                    rec.count("training_histories")
                    rec.nontrivial.add(chash("hist", name, oname, rep))
                    try:
                        if rep % 2 == 0:
                            x = jr.normal(key, (40, *dim_shape)) * 2 + 1
                            data_fit.fit_to_data(key, model, x, max_epochs=3, batch_size=10, optimizer=opt, show_progress=False)
                        else:
                            loss = ElboLoss(lambda z: -0.5 * jnp.sum((z - 1.0) ** 2), num_samples=8)
                            variational_fit.fit_to_variational_target(key, model, loss, steps=8, optimizer=opt, show_progress=False)
                    except Exception as e:  # noqa: BLE001 - aggressive optimisers may produce NaNs that equinox/jax reject; not judged here
                        rec.count("training_histories_raised_" + type(e).__name__)
                    if current["viol"]:
                        report(current["viol"], current["it"])
        data_fit.step = orig_step
        variational_fit.step = orig_step
        for k, v_ in step_counts.items():
            rec.count("history_" + k, v_)
    out = rec.result()
    if not shard.get("replay"):
        out["required"] = {"raw_assignments": rec.counters.get("raw_assignments", 0)}
        if shard["shard"] % 4 == 0:
            out["required"]["constructor_roundtrips"] = rec.counters.get("constructor_roundtrips", 0)
        if shard["shard"] % 4 == 1:
            out["required"]["invalid_arguments_rejected"] = rec.counters.get("invalid_arguments_rejected", 0)
            out["required"]["invalid_arguments_rejected_traced"] = rec.counters.get("invalid_arguments_rejected_traced", 0)
        if shard.get("histories", 0):
            out["required"]["history_steps_checked"] = rec.counters.get("history_steps_checked", 0)
    return out
