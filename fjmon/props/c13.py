"""C13 - malformed inputs are rejected, never silently broadcast.

Monitor: for every concrete bijection class (found by walking AbstractBijection's subclasses), every catalogue /
generated composition and every flow, all four methods are called with every wrong shape of a lattice built around
the declared shape (scalar for vector, size-1 axis, extra leading/trailing axis, transposed, one axis off) for x and
for the condition (and None where a condition is required): each such call must raise.  Calls with the declared
shapes must return exactly the declared shape and a scalar log-det.  Distribution methods are probed with wrong
trailing dimensions; constructors with the incompatibilities they document.  A structural contract additionally
checks that the four methods of every concrete class carry the argument-checking wrapper."""
from __future__ import annotations

import itertools

import numpy as np

from fjmon import specs as S

PROPERTY = "C13"
LEVEL = "exploration"
NEEDS_SHIM = True
RULE = ("structures = leaf catalogue + combinator catalogue + flow factories + seeded random trees; per structure the wrong-shape lattice "
        "{(), (1,), (2,), (3,), (5,), (1,1), (1,3), (3,1), (2,3), (3,2), (1,2,3)} U {(1,)+S, S+(1,), reversed S, S with one axis set to 1 / +1, "
        "S without its first / last axis} minus the declared shape S, for x (4 methods) and for the condition (4 methods) plus a missing "
        "condition; distributions: wrong trailing dimensions; constructor negatives. A case = one call that must raise (or one "
        "well-formed call that must return the declared shape); non-trivial = a shape NumPy would broadcast against the declared one; "
        "distinct = distinct (structure, method, argument, shape) tuples")
ASSUMPTIONS = [
    "any exception counts as rejection",
    "an unconditional bijection/distribution ignores a supplied condition (documented) - never counted as a failure to reject",
    "distributions accept arbitrary leading batch dimensions, so only shapes whose trailing dimensions differ from the event shape are wrong",
]
ANCHOR_FILES = ["bijections/bijection.py", "distributions.py", "bijections/chain.py", "bijections/concatenate.py", "bijections/utils.py", "utils.py"]
REQUIRED_FUNCS = ["bijections/bijection.py:_unwrap_check_and_cast.wrapper", "bijections/bijection.py:_unwrap_check_and_cast.wrapper._check_x",
                  "bijections/bijection.py:_unwrap_check_and_cast.wrapper._check_condition", "bijections/bijection.py:AbstractBijection.__init_subclass__",
                  "distributions.py:AbstractDistribution._vectorize._check_shapes._wrapper", "utils.py:check_shapes_match", "utils.py:merge_cond_shapes",
                  "bijections/utils.py:Partial.__check_init__", "bijections/utils.py:Reshape.__check_init__",
                  "bijections/concatenate.py:Concatenate._argcheck_shapes", "distributions.py:AbstractTransformed.__check_init__"]

BASE_LATTICE = [(), (1,), (2,), (3,), (5,), (1, 1), (1, 3), (3, 1), (2, 3), (3, 2), (1, 2, 3)]
METHODS = ["transform", "transform_and_log_det", "inverse", "inverse_and_log_det"]


def lattice(shape):
    shape = tuple(shape)
    L = set(BASE_LATTICE)
    L.add((1,) + shape)
    L.add(shape + (1,))
    L.add(shape[::-1])
    for i in range(len(shape)):
        L.add(shape[:i] + (1,) + shape[i + 1:])
        L.add(shape[:i] + (shape[i] + 1,) + shape[i + 1:])
    if shape:
        L.add(shape[1:])
        L.add(shape[:-1])
        L.add((2,) + shape)
    L.discard(shape)
    return sorted(L, key=lambda s: (len(s), s))


def broadcastable(a, b):
    try:
        return np.broadcast_shapes(a, b) == tuple(b)
    except ValueError:
        return False


def plan(tier, seed):
    items = []
    for i, sp in enumerate(S.leaf_catalogue()):
        items.append({"kind": "spec", "spec": sp, "bseed": 100 + i, "origin": "leaf"})
    for i, sp in enumerate(S.combinator_catalogue()):
        items.append({"kind": "spec", "spec": sp, "bseed": 400 + i, "origin": "combinator"})
    from fjmon import flowgen

    for i, c in enumerate(flowgen.flow_cases(dims=(2,))):
        items.append({"kind": "flow", "case": c, "bseed": 700 + i, "origin": "flow"})
    rng = np.random.default_rng([seed, 13])
    gen = S.Gen(rng)
    for i in range(60 if tier != "thorough" else 900):
        items.append({"kind": "spec", "spec": gen.random_spec(), "bseed": int(rng.integers(0, 2**31 - 1)), "origin": "random"})
    nsh = 16
    groups = [items[i::nsh] for i in range(nsh)]
    return [{"name": f"C13-{i}", "shard": i, "items": g, "extras": i, "x64": True, "timeout": 3400} for i, g in enumerate(groups)]


def run_shard(shard):
    import equinox as eqx
    import jax
    import jax.numpy as jnp
    import jax.random as jr
    import flowjax.bijections as B
    import flowjax.distributions as D
    from flowjax.bijections.bijection import AbstractBijection
    from fjmon import env, flowgen
    from fjmon.bijcheck import Recorder
    from fjmon.common import jsonable

    rec = Recorder(shard, "C13")
    cases = set()

    def v(mech, msg, it, detail=None):
        rec.violation(mech, msg, it, ("init", 0.0), detail or {})

    def must_raise(fn):
        try:
            out = fn()
            jax.block_until_ready(out)
            return False, out
        except Exception:  # noqa: BLE001
            return True, None

    def hash_idx(seed, n):
        return int(seed) % n

    def typed_point(tagarr, shape):
        x = np.full(shape, 0.3)
        if tagarr is not None and tagarr.shape == tuple(shape):
            x = np.where(tagarr == S.POS, 0.7, np.where(tagarr == S.UNIT, 0.2, 0.3))
        return jnp.asarray(x)

    for it in shard["items"]:
        try:
            if it["kind"] == "spec":
                sp = it["spec"]
                b = S.build(sp, jr.PRNGKey(it["bseed"]))
                name = sp["op"]
                inv_ok, fwd_ok = S.invertible(sp), S.forward_ok(sp)
                dtag, ctag = S.tags(sp)
            else:
                if not env.shim_ok() and it["case"]["factory"] in ("block_neural_autoregressive_flow", "triangular_spline_flow"):
                    continue
                flow = flowgen.build_flow(it["case"], jr.PRNGKey(it["bseed"]))
                b = flow.bijection
                name = flowgen.case_name(it["case"])
                inv_ok = flowgen.flow_invertible(it["case"])
                fwd_ok = inv_ok or not it["case"]["invert"]
                inv_ok = inv_ok or it["case"]["invert"]
                dtag = ctag = None
        except Exception as e:  # noqa: BLE001
            v(f"build.{type(e).__name__}", f"constructor raised {type(e).__name__}: {str(e)[:200]} for {it.get('spec') or it.get('case')}", it)
            continue
        rec.count("structures")
        shape, cshape = tuple(b.shape), (None if b.cond_shape is None else tuple(b.cond_shape))
        if it["kind"] == "spec":
            exp_shape, exp_c = tuple(S.shape_of(it["spec"])), S.cond_shape_of(it["spec"])
            rec.evals += 1
            rec.count("declared_shape_checks")
            if shape != exp_shape or cshape != (None if exp_c is None else tuple(exp_c)):
                v("declared_shape", f"{name}: declares shape {shape} / cond_shape {cshape} but was constructed for {exp_shape} / {exp_c}; {it['spec']}", it)
                continue
        good_c = None if cshape is None else jnp.full(cshape, 0.1)
        avail = [m for m in METHODS if (fwd_ok if m.startswith("transform") else inv_ok)]
        # ---- well-formed calls: declared shape out, scalar log-det
        for m in avail:
            x = typed_point(dtag if m.startswith("transform") else ctag, shape)
            rec.evals += 1
            cases.add((name, it["bseed"], m, "ok"))
            try:
                out = getattr(b, m)(x, good_c)
            except Exception as e:  # noqa: BLE001
                v(f"wellformed.{type(e).__name__}", f"{name}.{m} raised {type(e).__name__}: {str(e)[:200]} for inputs of exactly the declared shapes {shape}/{cshape}", it)
                continue
            y, ld = (out if m.endswith("log_det") else (out, None))
            rec.count("wellformed_calls")
            if tuple(y.shape) != shape or (ld is not None and tuple(jnp.shape(ld)) != ()):
                v("returned_shape", f"{name}.{m} returned shape {tuple(y.shape)} (log-det shape {None if ld is None else tuple(jnp.shape(ld))}), declared {shape} and ()", it)
        # ---- wrong x shapes
        for w in lattice(shape):
            for m in avail:
                rec.evals += 1
                key = (name, it["bseed"], m, "x", w)
                cases.add(key)
                if broadcastable(w, shape) or broadcastable(shape, w):
                    rec.nontrivial.add(key)
                ok, out = must_raise(lambda: getattr(b, m)(jnp.full(w, 0.3), good_c))
                rec.count("wrong_x_shape_calls")
                if not ok:
                    o = out[0] if isinstance(out, tuple) else out
                    v("accepted.wrong_x_shape", f"{name}.{m} accepted x of shape {w} (declared {shape}) and returned shape {tuple(o.shape)}", it,
                      {"method": m, "x_shape": w, "declared": shape})
                    break
        # ---- wrong / missing conditions
        if cshape is not None:
            for m in avail:
                x = typed_point(dtag if m.startswith("transform") else ctag, shape)
                rec.evals += 1
                cases.add((name, it["bseed"], m, "c", None))
                rec.nontrivial.add((name, it["bseed"], m, "c", None))
                ok, _ = must_raise(lambda: getattr(b, m)(x))
                rec.count("missing_condition_calls")
                if not ok:
                    v("accepted.missing_condition", f"{name}.{m} accepted a missing condition (cond_shape {cshape})", it)
                for w in lattice(cshape):
                    rec.evals += 1
                    key = (name, it["bseed"], m, "c", w)
                    cases.add(key)
                    if broadcastable(w, cshape) or broadcastable(cshape, w):
                        rec.nontrivial.add(key)
                    ok, out = must_raise(lambda: getattr(b, m)(x, jnp.full(w, 0.1)))
                    rec.count("wrong_condition_shape_calls")
                    if not ok:
                        v("accepted.wrong_condition_shape", f"{name}.{m} accepted a condition of shape {w} (declared {cshape})", it,
                          {"method": m, "cond_shape": w, "declared": cshape})
                        break
        # ---- the same rejections while being traced (jit / vmap): the shape is static there too, and most real calls are traced
        if avail:
            m = avail[hash_idx(it["bseed"], len(avail))]
            xg = typed_point(dtag if m.startswith("transform") else ctag, shape)
            wrong = [w for w in lattice(shape) if broadcastable(w, shape) or broadcastable(shape, w)][:2]
            probes = [("x", w, (lambda w=w: jax.jit(lambda x: getattr(b, m)(x, good_c))(jnp.full(w, 0.3))), "jit") for w in wrong]
            probes += [("x", w, (lambda w=w: jax.vmap(lambda x: getattr(b, m)(x, good_c))(jnp.full((2, *w), 0.3))), "vmap") for w in wrong[:1]]
            if cshape is not None:
                wc = [w for w in lattice(cshape) if broadcastable(w, cshape) or broadcastable(cshape, w)][:1]
                probes += [("c", w, (lambda w=w: jax.jit(lambda c: getattr(b, m)(xg, c))(jnp.full(w, 0.1))), "jit") for w in wc]
                probes += [("c", w, (lambda w=w: jax.vmap(lambda c: getattr(b, m)(xg, c))(jnp.full((2, *w), 0.1))), "vmap") for w in wc]
            for what, w, fn, tr in probes:
                rec.evals += 1
                key = (name, it["bseed"], m, what, w, tr)
                cases.add(key)
                rec.nontrivial.add(key)
                ok, out = must_raise(fn)
                rec.count("wrong_shape_calls_under_" + tr)
                if not ok:
                    o = out[0] if isinstance(out, tuple) else out
                    v(f"accepted.wrong_{'x' if what == 'x' else 'condition'}_shape", f"{name}.{m} under jax.{tr} accepted {'x' if what == 'x' else 'a condition'} of shape {w} "
                      f"(declared {shape if what == 'x' else cshape}) and returned shape {tuple(o.shape)}", it, {"method": m, "shape": w, "under": tr})
                    break
        if len(rec.samples) < 2 and it["origin"] == "random":
            rec.samples.append(jsonable({"structure": it.get("spec"), "declared_shape": shape, "declared_cond_shape": cshape,
                                         "wrong_x_shapes_tried": lattice(shape)[:8], "methods": avail}))

    # ------------------------------------------------------------------ structural contract --
    if shard["extras"] == 0 and not shard.get("replay"):
        def subclasses(c):
            out = set()
            for s_ in c.__subclasses__():
                out.add(s_)
                out |= subclasses(s_)
            return out

        import inspect

        for cls in sorted(subclasses(AbstractBijection), key=lambda c: c.__name__):
            if inspect.isabstract(cls) or not cls.__module__.startswith("flowjax"):
                continue
            rec.count("classes_inspected")
            for m in METHODS:
                f = getattr(cls, m, None)
                rec.evals += 1
                cases.add(("class", cls.__name__, m))
                if f is None or not hasattr(f, "__wrapped__"):
                    v("class.method_unchecked", f"{cls.__module__}.{cls.__name__}.{m} does not carry the argument-checking wrapper", {"class": cls.__name__, "origin": "class"})
        known = set(S.CLASS_TO_OP)
        for cls in subclasses(AbstractBijection):
            if cls.__module__.startswith("flowjax") and not inspect.isabstract(cls) and cls.__name__ not in known:
                rec.inconclusive.append(f"bijection class {cls.__name__} is unknown to the workload generator")

    # ------------------------------------------------------------------ distributions ------
    if shard["extras"] in (1, 2, 3) and not shard.get("replay"):
        key = jr.PRNGKey(3)
        from flowjax.flows import coupling_flow, masked_autoregressive_flow

        dists = {"Normal(3)": D.Normal(jnp.zeros(3), jnp.ones(3)), "Normal(2,3)": D.Normal(jnp.zeros((2, 3)), jnp.ones((2, 3))), "StudentT(3)": D.StudentT(jnp.full((3,), 3.0)),
                 "MVN(3)": D.MultivariateNormal(jnp.zeros(3), jnp.eye(3)), "Uniform(3)": D.Uniform(jnp.zeros(3), jnp.ones(3)), "LogNormal(2,3)": D.LogNormal(jnp.zeros((2, 3)), jnp.ones((2, 3))),
                 "Mixture(3)": D.VmapMixture(eqx.filter_vmap(D.Normal)(jnp.zeros((4, 3)), jnp.ones((4, 3))), jnp.ones(4)),
                 "coupling_flow(3|2)": coupling_flow(key, base_dist=D.StandardNormal((3,)), cond_dim=2, flow_layers=1, nn_width=4),
                 "maf(3)": masked_autoregressive_flow(key, base_dist=D.StandardNormal((3,)), flow_layers=1, nn_width=4),
                 "Transformed(2,3)": D.Transformed(D.StandardNormal((2, 3)), B.Affine(jnp.zeros((2, 3))))}
        # conditional distributions written through the documented extension point (subclass AbstractDistribution, define _sample /
        # _log_prob) whose own code would happily broadcast a malformed condition: only the public methods can reject it
        class ShiftedNormal(D.AbstractDistribution):
            shape: tuple
            cond_shape: tuple

            def _log_prob(self, x, condition=None):
                return -0.5 * jnp.sum((x - jnp.sum(condition)) ** 2)

            def _sample(self, key, condition=None):
                return jnp.sum(condition) + jr.normal(key, self.shape)

        dists["extension-point ShiftedNormal(3|3)"] = ShiftedNormal((3,), (3,))
        dists["extension-point ShiftedNormal(2|2,3)"] = ShiftedNormal((2,), (2, 3))
        dists["extension-point ShiftedNormal(()|2)"] = ShiftedNormal((), (2,))
        names = list(dists)[(shard["extras"] - 1)::3]
        for nm in names:
            d = dists[nm]
            shape, cshape = tuple(d.shape), (None if d.cond_shape is None else tuple(d.cond_shape))
            gc = None if cshape is None else jnp.zeros(cshape)
            k = len(shape)
            for w in lattice(shape) + [(4,) + s_ for s_ in lattice(shape)[:6]]:
                if len(w) >= k and tuple(w[len(w) - k:]) == shape:
                    continue  # valid: leading batch dimensions
                rec.evals += 1
                keyc = ("dist", nm, "log_prob", w)
                cases.add(keyc)
                if broadcastable(w[-k:] if len(w) >= k else w, shape):
                    rec.nontrivial.add(keyc)
                ok, out = must_raise(lambda: d.log_prob(jnp.full(w, 0.3), gc))
                rec.count("distribution_wrong_shape_calls")
                if not ok:
                    v("dist.accepted.wrong_x_shape", f"{nm}.log_prob accepted x of shape {w} (event shape {shape}) and returned shape {tuple(out.shape)}",
                      {"dist": nm, "origin": "dist"}, {"x_shape": w})
            if cshape is not None:
                kc = len(cshape)
                for w in lattice(cshape):
                    if len(w) >= kc and tuple(w[len(w) - kc:]) == cshape:
                        continue
                    for meth in ("log_prob", "sample", "sample_and_log_prob"):
                        rec.evals += 1
                        cases.add(("dist", nm, meth, "c", w))
                        rec.nontrivial.add(("dist", nm, meth, "c", w))
                        if meth == "log_prob":
                            ok, _ = must_raise(lambda: d.log_prob(jnp.zeros(shape), jnp.zeros(w)))
                        else:
                            ok, _ = must_raise(lambda: getattr(d, meth)(key, (), jnp.zeros(w)))
                            if ok:
                                ok, _ = must_raise(lambda: getattr(d, meth)(key, (2,), jnp.zeros(w)))
                        rec.count("distribution_wrong_shape_calls")
                        if not ok:
                            v("dist.accepted.wrong_condition_shape", f"{nm}.{meth} accepted a condition of shape {w} (cond_shape {cshape})", {"dist": nm, "origin": "dist"})
                for meth, call in {"log_prob": lambda: d.log_prob(jnp.zeros(shape)), "sample": lambda: d.sample(key), "sample_and_log_prob": lambda: d.sample_and_log_prob(key)}.items():
                    rec.evals += 1
                    ok, _ = must_raise(call)
                    rec.count("distribution_wrong_shape_calls")
                    if not ok:
                        v("dist.accepted.missing_condition", f"{nm}.{meth} accepted a missing condition", {"dist": nm, "origin": "dist"})

    # ------------------------------------------------------------------ constructors -------
    if shard["extras"] == 4 and not shard.get("replay"):
        A3, A2, A23, A32 = B.Affine(jnp.zeros(3)), B.Affine(jnp.zeros(2)), B.Affine(jnp.zeros((2, 3))), B.Affine(jnp.zeros((3, 2)))
        C2 = B.AdditiveCondition(lambda c: c.sum(), (3,), (2,))
        C4 = B.AdditiveCondition(lambda c: c.sum(), (3,), (4,))
        key = jr.PRNGKey(0)
        bad = {
            "Chain(cond mismatch around an unconditional member)": lambda: B.Chain([C2, A3, C4]),
            "Chain(cond mismatch, unconditional first)": lambda: B.Chain([A3, C2, A3, A3, C4]),
            "Concatenate(cond mismatch around an unconditional member)": lambda: B.Concatenate([C2, A3, C4]),
            "Stack(cond mismatch around an unconditional member)": lambda: B.Stack([C2, A3, C4]),
            "Concatenate(axis=1, members differ before the axis)": lambda: B.Concatenate([B.Affine(jnp.zeros((2, 3))), B.Affine(jnp.zeros((4, 5)))], axis=1),
            "Concatenate(axis=-1, members differ before the axis)": lambda: B.Concatenate([B.Affine(jnp.zeros((2, 3))), B.Affine(jnp.zeros((1, 3)))], axis=-1),
            "Concatenate(axis=2, members differ in axis 0)": lambda: B.Concatenate([B.Affine(jnp.zeros((2, 3, 2))), B.Affine(jnp.zeros((3, 3, 2)))], axis=2),
            "Concatenate(axis=0, members differ after the axis)": lambda: B.Concatenate([B.Affine(jnp.zeros((2, 3))), B.Affine(jnp.zeros((2, 4)))], axis=0),
            "Concatenate(axis=1 of 3, members differ after the axis)": lambda: B.Concatenate([B.Affine(jnp.zeros((2, 3, 2))), B.Affine(jnp.zeros((2, 3, 1)))], axis=1),
            "Stack(axis=1, members differ)": lambda: B.Stack([B.Affine(jnp.zeros((2, 3))), B.Affine(jnp.zeros((2, 1)))], axis=1),
            "Stack(axis=-1, members differ in axis 0)": lambda: B.Stack([B.Affine(jnp.zeros((2, 3))), B.Affine(jnp.zeros((1, 3)))], axis=-1),
            "Chain(shape mismatch)": lambda: B.Chain([A3, A2]), "Chain(scalar vs vector)": lambda: B.Chain([B.Affine(), A3]),
            "Chain((1,3) vs (3,))": lambda: B.Chain([B.Affine(jnp.zeros((1, 3))), A3]), "Chain(cond mismatch)": lambda: B.Chain([C2, C4]),
            "Concatenate(other axis mismatch)": lambda: B.Concatenate([A23, A32], axis=0), "Concatenate(rank mismatch)": lambda: B.Concatenate([A3, A23], axis=0),
            "Concatenate(cond mismatch)": lambda: B.Concatenate([C2, C4]), "Concatenate(axis out of range)": lambda: B.Concatenate([A3, A3], axis=1),
            "Stack(shape mismatch)": lambda: B.Stack([A3, A2]), "Stack((2,3) vs (3,2))": lambda: B.Stack([A23, A32]), "Stack(cond mismatch)": lambda: B.Stack([C2, C4]),
            "Partial(index does not fit)": lambda: B.Partial(A3, jnp.array([0, 1]), (5,)), "Partial(slice too long)": lambda: B.Partial(A2, slice(0, 3), (5,)),
            "Partial(bool mask wrong count)": lambda: B.Partial(A2, jnp.array([True, True, True, False]), (4,)), "Partial(int on 2D gives row)": lambda: B.Partial(A2, 0, (3, 3)),
            "Reshape(element count)": lambda: B.Reshape(A3, (2, 2)), "Reshape(vector to scalar)": lambda: B.Reshape(A3, ()),
            "Reshape(matrix to scalar)": lambda: B.Reshape(A23, ()), "Reshape(cond to scalar)": lambda: B.Reshape(C2, (3,), ()),
            "Reshape(to fewer elements)": lambda: B.Reshape(A23, (5,)), "Reshape(cond element count)": lambda: B.Reshape(C2, (3,), (3,)),
            "Reshape(cond for unconditional)": lambda: B.Reshape(A3, (3,), (2,)),
            "Coupling(non-scalar transformer)": lambda: B.Coupling(key, transformer=A3, untransformed_dim=1, dim=3, nn_width=3, nn_depth=1),
            "Coupling(conditional transformer)": lambda: B.Coupling(key, transformer=B.AdditiveCondition(lambda c: c.sum(), (), (2,)), untransformed_dim=1, dim=3, nn_width=3, nn_depth=1),
            "MAF(non-scalar transformer)": lambda: B.MaskedAutoregressive(key, transformer=A3, dim=3, nn_width=3, nn_depth=1),
            "MAF(conditional transformer)": lambda: B.MaskedAutoregressive(key, transformer=B.AdditiveCondition(lambda c: c.sum(), (), (2,)), dim=3, nn_width=3, nn_depth=1),
            "Vmap(both in_axes and axis_size)": lambda: B.Vmap(A3, in_axes=eqx.if_array(0), axis_size=3), "Vmap(neither)": lambda: B.Vmap(A3),
            "BNAF(non-scalar activation)": lambda: B.BlockAutoregressiveNetwork(key, dim=2, depth=1, block_dim=2, activation=B.Tanh((2,))),
            "Transformed(cond mismatch)": lambda: D.Transformed(__import__("flowjax.flows", fromlist=["x"]).coupling_flow(key, base_dist=D.StandardNormal((3,)), cond_dim=4, flow_layers=1, nn_width=3), C2),
            "Transformed(shape mismatch log_prob)": lambda: D.Transformed(D.StandardNormal((2,)), A3).log_prob(jnp.zeros(3)),
            "TriangularAffine(non-square)": lambda: B.TriangularAffine(jnp.zeros(2), jnp.ones((2, 3))),
            "TriangularAffine(loc wrong length)": lambda: B.TriangularAffine(jnp.zeros(2), jnp.eye(3)),
        }
        # a wrong-shaped condition produced *inside* a composite (the embedding network's output) must be rejected as well
        inner = B.Chain([A3, B.AdditiveCondition(lambda c: c.sum() * jnp.ones(3), (3,), (2,))])
        for enm, net in {"scalar": lambda c: jnp.sum(c), "size-1": lambda c: jnp.sum(c)[None], "extra leading axis": lambda c: jnp.ones((4, 2)) * c[0],
                         "transposed-rank": lambda c: jnp.ones((2, 1)) * c[0], "too long": lambda c: jnp.ones(3) * c[0]}.items():
            emb = B.EmbedCondition(inner, net, (5,))
            for m in METHODS:
                bad[f"EmbedCondition(embedding returns {enm} instead of (2,)).{m}"] = (lambda emb=emb, m=m: getattr(emb, m)(jnp.ones(3), jnp.ones(5)))
        for nm, fn in bad.items():
            rec.evals += 1
            cases.add(("ctor", nm))
            rec.nontrivial.add(("ctor", nm))
            ok, out = must_raise(lambda: jax.tree_util.tree_leaves(eqx.filter(fn(), eqx.is_array)))
            rec.count("constructor_negative_probes")
            if not ok:
                v("constructor.accepted", f"{nm} was accepted without an error", {"ctor": nm, "origin": "ctor"})
            else:
                rec.count("constructor_negatives_rejected")
    out = rec.result()
    if not shard.get("replay"):
        out["required"] = {"wrong_x_shape_calls": rec.counters.get("wrong_x_shape_calls", 0), "wellformed_calls": rec.counters.get("wellformed_calls", 0)}
    return out
