"""Orchestrator: plan shards, run them as subprocesses against the working tree, aggregate
counters, classify violations against KNOWN_FINDINGS.txt, write evidence, set exit code.

exit 0  every compared case held and every required monitor was reached
exit 1  >=1 violation not listed as a known finding  (prints VIOLATION lines)
exit 2  inconclusive (watchdog, unreached monitor, harness error) - never folded into 0/1
"""
from __future__ import annotations

import concurrent.futures as cf
import hashlib
import importlib
import json
import os
import re
import shutil
import subprocess
import sys
import time

VERIF_DIR = os.path.dirname(os.path.dirname(os.path.abspath(__file__)))
PY = "/venv/bin/python"
NCPU = int(os.environ.get("VERIF_JOBS", "16"))


def _ensure_deps():
    if not os.path.isdir(os.path.join(VERIF_DIR, ".deps", "icontract")):
        subprocess.run(["sh", os.path.join(VERIF_DIR, "setup.sh")], cwd=VERIF_DIR,
                       stdout=subprocess.DEVNULL, stderr=subprocess.DEVNULL)


def load_known():
    known, fixed = [], []
    path = os.path.join(VERIF_DIR, "KNOWN_FINDINGS.txt")
    if os.path.exists(path):
        for line in open(path):
            line = line.strip()
            m = re.match(r"known:\s+property=(\S+)\s+key=(\S+)\s*(.*)", line)
            if m:
                known.append({"property": m.group(1), "key": m.group(2), "text": m.group(3)})
            m = re.match(r"fixed:\s+property=(\S+)\s+(\S+)\s*(.*)", line)
            if m:
                fixed.append({"property": m.group(1), "commit": m.group(2), "text": m.group(3)})
    return known, fixed


def _worker_env():
    env = dict(os.environ)
    env.update(
        PYTHONPATH=VERIF_DIR,
        PYTHONHASHSEED="0",
        PYTHONDONTWRITEBYTECODE="1",
        JAX_PLATFORMS="cpu",
        OMP_NUM_THREADS="1",
        OPENBLAS_NUM_THREADS="1",
        MKL_NUM_THREADS="1",
        TQDM_DISABLE="1",
        XLA_FLAGS="--xla_cpu_multi_thread_eigen=false intra_op_parallelism_threads=1",
    )
    env.pop("FLOWJAX_VERIF", None)
    return env


def _run_one(prop, shard, workdir, idx):
    sp = os.path.join(workdir, f"shard{idx}.json")
    op = os.path.join(workdir, f"out{idx}.json")
    json.dump(shard, open(sp, "w"))
    timeout = shard.get("timeout", 3000)
    t0 = time.time()
    try:
        p = subprocess.run([PY, "-m", "fjmon.worker", prop, sp, op], cwd=VERIF_DIR,
                           env=_worker_env(), timeout=timeout, capture_output=True, text=True)
        if os.path.exists(op):
            res = json.load(open(op))
        else:
            res = {"harness_error": f"worker exited {p.returncode} without result",
                   "traceback": (p.stderr or "")[-3000:]}
    except subprocess.TimeoutExpired:
        res = {"watchdog": f"shard {shard.get('name')} exceeded {timeout}s (inconclusive)"}
    res.setdefault("shard", shard.get("name", str(idx)))
    res.setdefault("wall_s", time.time() - t0)
    return res


def _merge(total, res):
    total["evaluations"] += int(res.get("evaluations", 0))
    total["nontrivial"] += int(res.get("nontrivial", 0))
    for k, v in res.get("counters", {}).items():
        total["counters"][k] = total["counters"].get(k, 0) + v
    for k, v in res.get("required", {}).items():
        total["required"][k] = total["required"].get(k, 0) + v
    for k, v in res.get("maxima", {}).items():
        if v is not None and (k not in total["maxima"] or v > total["maxima"][k]):
            total["maxima"][k] = v
    for s in res.get("samples", []):
        if len(total["samples"]) < 12:
            total["samples"].append(s)
    total["violations"].extend(res.get("violations", []))
    total["inconclusive"].extend(res.get("inconclusive", []))
    if "harness_error" in res:
        total["inconclusive"].append(f"harness error in shard {res.get('shard')}: {res['harness_error']}")
        total["tracebacks"].append(res.get("traceback", ""))
    if "watchdog" in res:
        total["inconclusive"].append(res["watchdog"])
    r = res.get("reach")
    if r:
        for f, n in r["files"].items():
            total["reach_files"][f] = max(total["reach_files"].get(f, 0), n)
        total["reach_funcs"].update(r["functions"])
    if res.get("shim") is False:
        total["shim_failed"] = True
    for k, v in res.get("notes", {}).items():
        total["notes"].setdefault(k, v)


def run_check(prop: str, tier: str, seed: int, replay: str | None = None) -> int:
    prop = prop.upper()
    _ensure_deps()
    mod = importlib.import_module(f"fjmon.props.{prop.lower()}")
    t0 = time.time()
    if replay:
        payload = json.load(open(replay))
        shards = [payload["replay_shard"]]
        for s in shards:
            s["replay"] = True
    else:
        shards = mod.plan(tier, seed)
    for i, s in enumerate(shards):
        s.setdefault("name", f"{prop}-{i}")
        s.setdefault("tier", tier)
        s.setdefault("seed", seed)
    workdir = os.path.join(VERIF_DIR, ".work", f"{prop}-{tier}-{os.getpid()}")
    os.makedirs(workdir, exist_ok=True)
    total = {"evaluations": 0, "nontrivial": 0, "counters": {}, "required": {}, "maxima": {},
             "samples": [], "violations": [], "inconclusive": [], "tracebacks": [],
             "reach_files": {}, "reach_funcs": set(), "notes": {}}
    try:
        with cf.ThreadPoolExecutor(max_workers=min(NCPU, max(1, len(shards)))) as ex:
            futs = [ex.submit(_run_one, prop, s, workdir, i) for i, s in enumerate(shards)]
            for f in cf.as_completed(futs):
                _merge(total, f.result())
    finally:
        shutil.rmtree(workdir, ignore_errors=True)

    # ---- required monitors / reach -----------------------------------------------------
    if not replay:
        for k, v in sorted(total["required"].items()):
            if v <= 0:
                total["inconclusive"].append(f"required monitor/boundary class never reached: {k}")
        for fn in getattr(mod, "REQUIRED_FUNCS", []):
            if fn not in total["reach_funcs"]:
                total["inconclusive"].append(f"anchored function never entered by the workload: {fn}")
        if total["evaluations"] == 0:
            total["inconclusive"].append("no case was evaluated")
    if total.get("shim_failed") and getattr(mod, "NEEDS_SHIM", False):
        total["inconclusive"].append("equinox shim failed to apply")

    # ---- classify violations -------------------------------------------------------------
    known, _fixed = load_known()
    known_keys = {k["key"]: k for k in known if k["property"] == prop}
    new, listed = [], {}
    for v in total["violations"]:
        key = v.get("mechanism", "unclassified")
        if key in known_keys:
            listed.setdefault(key, []).append(v)
        else:
            new.append(v)
    for key, vs in sorted(listed.items()):
        print(f"KNOWN-FINDING: property={prop} key={key} {known_keys[key]['text']} "
              f"(observed {len(vs)}x in this run)")

    printed = 0
    seen_mech = {}
    replay_dir = os.path.join(VERIF_DIR, "replay", prop)
    for v in new:
        mech = v.get("mechanism", "unclassified")
        seen_mech[mech] = seen_mech.get(mech, 0) + 1
        if seen_mech[mech] > 3 or printed >= 30:
            continue
        os.makedirs(replay_dir, exist_ok=True)
        blob = json.dumps(v, sort_keys=True, default=str)
        h = hashlib.sha1(blob.encode()).hexdigest()[:16]
        path = os.path.join(replay_dir, f"{h}.json")
        with open(path, "w") as f:
            json.dump({"property": prop, "mechanism": mech, "summary": v.get("summary"),
                       "case": v.get("case"), "replay_shard": v.get("replay")}, f, indent=1, default=str)
        print(f"VIOLATION property={prop} replay={path}")
        print(f"  mechanism={mech} :: {str(v.get('summary'))[:400]}")
        printed += 1
    if new:
        print(f"[{prop}] {len(new)} violating cases; by mechanism: {seen_mech}")
    if os.environ.get("VERIF_DUMP"):
        with open(os.environ["VERIF_DUMP"], "w") as f:
            for v in total["violations"]:
                f.write(json.dumps({"mechanism": v.get("mechanism"), "summary": v.get("summary")}, default=str) + "\n")

    wall = time.time() - t0
    # ---- evidence ------------------------------------------------------------------------
    if not replay:
        anchors = getattr(mod, "ANCHOR_FILES", [])
        cov = {
            "evaluations": total["evaluations"],
            "distinct_nontrivial": total["nontrivial"],
            "rule": getattr(mod, "RULE", ""),
            "samples": total["samples"],
            "counters": dict(sorted(total["counters"].items())),
            "required_monitor_counts": dict(sorted(total["required"].items())),
            "margins_max_err_over_tol": total["maxima"],
            "shards": len(shards),
            "reach_lines_executed": {f: total["reach_files"].get(f, 0) for f in anchors} if anchors else total["reach_files"],
            "reach_functions_entered": len(total["reach_funcs"]),
            "inconclusive_reasons": total["inconclusive"][:20],
            "known_findings_observed": {k: len(v) for k, v in listed.items()},
            "violations_new_by_mechanism": seen_mech,
            "notes": total["notes"],
        }
        ev = {
            "property_id": prop,
            "tier": tier if tier in ("quick", "thorough") else "quick",
            "seed": int(seed),
            "level": getattr(mod, "LEVEL", "exploration"),
            "coverage": cov,
            "assumptions": getattr(mod, "ASSUMPTIONS", []),
            "wall_s": round(wall, 2),
            "violations": len(new),
        }
        # evidence/ describes runs against /repo itself; a run pointed at another source tree (VERIF_REPO: scratch copies with a
        # seeded change) leaves it alone and writes under the git-ignored .work/ instead
        evdir = "evidence" if os.path.realpath(os.environ.get("VERIF_REPO", "/repo")) == "/repo" else os.path.join(".work", "evidence-other-tree")
        ev["source_tree"] = os.path.realpath(os.environ.get("VERIF_REPO", "/repo"))
        os.makedirs(os.path.join(VERIF_DIR, evdir), exist_ok=True)
        with open(os.path.join(VERIF_DIR, evdir, f"{prop}.json"), "w") as f:
            json.dump(ev, f, indent=1, default=str)

    print(f"[{prop}] tier={tier} seed={seed} shards={len(shards)} evaluations={total['evaluations']} "
          f"distinct_nontrivial={total['nontrivial']} violations={len(new)} "
          f"known={sum(len(v) for v in listed.values())} wall={wall:.1f}s")
    for k, v in sorted(total["maxima"].items()):
        print(f"  margin {k} = {v:.3g}")
    if new:
        return 1
    if total["inconclusive"]:
        for r in total["inconclusive"][:10]:
            print(f"INCONCLUSIVE property={prop} reason={r}")
        for tb in total["tracebacks"][:2]:
            print(tb)
        return 2
    return 0


def main(argv):
    import argparse

    ap = argparse.ArgumentParser()
    ap.add_argument("prop")
    ap.add_argument("tier", nargs="?", default=os.environ.get("VERIF_TIER", "quick"))
    ap.add_argument("--replay")
    a = ap.parse_args(argv[1:])
    seed = int(os.environ.get("VERIF_SEED", "0"))
    return run_check(a.prop, a.tier, seed, a.replay)
