"""Distribution workloads shared by the distribution-level monitors (C03, C04, C06, C14, C18)."""
from __future__ import annotations

import numpy as np

from fjmon import flowgen
from fjmon import specs as S

BASES_R = ["StandardNormal", "Normal", "StudentT", "Cauchy", "Laplace", "Logistic", "Gumbel"]


def build_base(name, shape, key):
    """A base distribution with full support on R^shape."""
    import jax.numpy as jnp
    import jax.random as jr
    import flowjax.distributions as D

    k = jr.split(key, 3)
    if name == "StandardNormal":
        return D.StandardNormal(shape)
    loc = jr.uniform(k[0], shape, minval=-1.0, maxval=1.0)
    scale = jnp.exp(jr.uniform(k[1], shape, minval=-0.7, maxval=0.7))
    if name == "StudentT":
        return D.StudentT(jnp.exp(jr.uniform(k[2], shape, minval=0.0, maxval=2.0)), loc, scale)
    return getattr(D, name)(loc, scale)


def dist_items(tier, seed):
    """Structures for distribution-level monitors: Transformed(base, b) and Transformed(base, Invert(b)) for every
    R->R leaf/combinator spec, every flow factory case, random trees."""
    items = []
    cat = [("leaf", sp) for sp in S.leaf_catalogue()] + [("combinator", sp) for sp in S.combinator_catalogue()]
    rng = np.random.default_rng([seed, 303])
    i = 0
    for origin, sp in cat:
        if not S.invertible(sp) and not S.forward_ok(sp):
            continue
        d, c = S.tags(sp)
        if d.any() or c.any():
            continue  # restricted domain/codomain: covered through the named families (C05)
        fn, inn = S.numeric(sp)
        for orient in ("as_is", "inverted"):
            if orient == "as_is" and not S.invertible(sp):
                continue  # log_prob needs the inverse
            if orient == "inverted" and False:
                continue
            base = BASES_R[i % len(BASES_R)]
            items.append({"kind": "tspec", "spec": sp, "orient": orient, "base": base, "bseed": 5000 + i, "origin": origin})
            i += 1
    dims = (2,) if tier != "thorough" else (1, 2, 3)
    for j, c in enumerate(flowgen.flow_cases(dims=dims)):
        if not flowgen.flow_invertible(c) and not c["invert"]:
            continue  # planar tanh, invert=False: log_prob would need the missing inverse
        items.append({"kind": "flow", "case": c, "base": BASES_R[j % len(BASES_R)], "bseed": 6000 + j, "origin": "flow"})
    for j, c in enumerate(flowgen.corner_cases()):
        items.append({"kind": "flow", "case": c, "base": BASES_R[j % len(BASES_R)], "bseed": 6500 + j, "origin": "flow-corner"})
    nrand = 40 if tier != "thorough" else 500
    gen = S.Gen(rng)
    for _ in range(nrand):
        sp = gen.random_spec()
        d, c = S.tags(sp)
        if d.any() or c.any() or not S.invertible(sp):
            continue
        items.append({"kind": "tspec", "spec": sp, "orient": str(rng.choice(["as_is", "inverted"])),
                      "base": BASES_R[int(rng.integers(0, len(BASES_R)))], "bseed": int(rng.integers(0, 2**31 - 1)),
                      "origin": "random"})
    return items


def build_dist(it, key):
    """-> (distribution, meta)"""
    import jax.random as jr
    import flowjax.bijections as B
    from flowjax.distributions import Transformed
    from fjmon import bijbundle as BB
    from fjmon import bijcheck

    k1, k2 = jr.split(key)
    if it["kind"] == "tspec":
        sp = it["spec"]
        b = S.build(sp, k1)
        if it["orient"] == "inverted":
            b = B.Invert(b)
        shape = S.shape_of(sp)
        base = build_base(it["base"], shape, k2)
        fn, inn = S.numeric(sp)
        if it["orient"] == "inverted":
            fn, inn = inn, fn
        meta = {"shape": shape, "cond_shape": S.cond_shape_of(sp), "crit0": BB.criticals_from_spec(sp),
                "ops": sorted(S.ops_in(sp)), "name": f"Transformed({it['base']}, {'Invert(' if it['orient']=='inverted' else ''}{sp['op']})",
                "planar": "Planar" in S.ops_in(sp), "logprob_numeric": inn, "sample_numeric": fn,
                "overflow": bool(S.ops_in(sp) & {"Exp"})}
        return Transformed(base, b), meta
    c = it["case"]
    base = build_base(it["base"], (c["dim"],), k2)
    flow = flowgen.build_flow(c, k1, base=base)
    fmeta = bijcheck.flow_meta(c)
    fn, inn = flowgen.flow_numeric(c)
    meta = {"shape": (c["dim"],), "cond_shape": fmeta["cond_shape"], "crit0": fmeta["crit0"], "ops": fmeta["ops"],
            "name": f"{flowgen.case_name(c)}/base={it['base']}", "planar": c["factory"] == "planar_flow",
            "logprob_numeric": inn, "sample_numeric": fn, "overflow": False}
    return flow, meta
