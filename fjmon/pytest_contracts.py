"""pytest plugin (thorough tier of C12/C13): runs the repository's own test-suite as an additional workload with
the unwrap contract (no wrapper left, idempotent) and the success-side shape contracts of the bijection methods
installed.  Usage: PYTHONPATH=/verif:$VERIF_REPO pytest -p fjmon.pytest_contracts ...; counters are written to
$FJMON_CONTRACT_OUT at session end."""
import json
import os
import sys

COUNTS = {}


def pytest_configure(config):
    repo = os.environ.get("VERIF_REPO", "/repo")
    if repo not in sys.path:
        sys.path.insert(0, repo)
    deps = os.path.join(os.path.dirname(os.path.dirname(os.path.abspath(__file__))), ".deps")
    if deps not in sys.path:
        sys.path.append(deps)
    from fjmon.props.c12 import install_unwrap_contract

    install_unwrap_contract(COUNTS)
    _install_shape_contracts()


def _install_shape_contracts():
    """Success-side clause of C13 on every concrete bijection class: a call that returns must return the declared shape
    and a scalar log-det (valid on tracers: shapes are static)."""
    import functools
    import inspect

    import jax.numpy as jnp
    from flowjax.bijections.bijection import AbstractBijection

    class ShapeContractBroken(AssertionError):
        pass

    def subclasses(c):
        out = set()
        for s_ in c.__subclasses__():
            out.add(s_)
            out |= subclasses(s_)
        return out

    def wrap(cls, name):
        orig = cls.__dict__[name]

        @functools.wraps(orig)
        def checked(self, x, condition=None):
            out = orig(self, x, condition)
            COUNTS["shape_contract_evaluations"] = COUNTS.get("shape_contract_evaluations", 0) + 1
            y, ld = (out if name.endswith("log_det") else (out, None))
            if tuple(jnp.shape(y)) != tuple(self.shape) or (ld is not None and tuple(jnp.shape(ld)) != ()):
                raise ShapeContractBroken(f"ShapeContractBroken: {cls.__name__}.{name} returned shape {jnp.shape(y)} / log-det {None if ld is None else jnp.shape(ld)}, declared {self.shape}")
            return out

        setattr(cls, name, checked)

    for cls in subclasses(AbstractBijection):
        if inspect.isabstract(cls) or not cls.__module__.startswith("flowjax"):
            continue
        for name in ("transform", "transform_and_log_det", "inverse", "inverse_and_log_det"):
            if name in cls.__dict__:
                wrap(cls, name)


def pytest_sessionfinish(session, exitstatus):
    out = os.environ.get("FJMON_CONTRACT_OUT")
    if out:
        with open(out, "w") as f:
            json.dump({k: v for k, v in COUNTS.items() if not k.startswith("_")}, f)
