"""Workload generator: JSON-serialisable *specs* of bijection expressions, built into real
flowjax objects through the public constructors.  (Import after fjmon.env.setup().)

spec = {"op": <name>, ...}.  Leaves: Affine Loc Scale TriangularAffine Exp SoftPlus Tanh LeakyTanh
Identity Flip Permute RQS Planar AdditiveCondition Coupling MAF BNAF.  Combinators: Chain Scan Vmap
Concatenate Stack Partial Invert Reshape EmbedCondition.  Flow factories: see `flow_spec`.
"""
from __future__ import annotations

import math

import numpy as np

R, POS, UNIT = 0, 1, 2  # coordinate types: all reals, positive reals, (-1, 1)

ELEMENTWISE = ("Affine", "Loc", "Scale", "Exp", "SoftPlus", "Tanh", "LeakyTanh", "Identity", "Flip", "Permute")
ALL_OPS = ELEMENTWISE + ("TriangularAffine", "RQS", "Planar", "AdditiveCondition", "Coupling", "MAF", "BNAF",
                         "Chain", "Scan", "Vmap", "Concatenate", "Stack", "Partial", "Invert", "Reshape",
                         "EmbedCondition")
PARAM_OPS = {"Affine", "Loc", "Scale", "TriangularAffine", "Permute", "RQS", "Planar", "AdditiveCondition", "Coupling",
             "MAF", "BNAF", "EmbedCondition"}
# public class name -> op name used here
CLASS_TO_OP = {"Affine": "Affine", "Loc": "Loc", "Scale": "Scale", "TriangularAffine": "TriangularAffine",
               "Exp": "Exp", "SoftPlus": "SoftPlus", "Tanh": "Tanh", "LeakyTanh": "LeakyTanh", "Identity": "Identity",
               "Flip": "Flip", "Permute": "Permute", "RationalQuadraticSpline": "RQS", "Planar": "Planar",
               "AdditiveCondition": "AdditiveCondition", "Coupling": "Coupling", "MaskedAutoregressive": "MAF",
               "BlockAutoregressiveNetwork": "BNAF", "Chain": "Chain", "Scan": "Scan", "Vmap": "Vmap",
               "Concatenate": "Concatenate", "Stack": "Stack", "Partial": "Partial", "Invert": "Invert",
               "Reshape": "Reshape", "EmbedCondition": "EmbedCondition",
               "_UnconditionalPlanar": "Planar", "_CallableToBijection": "BNAF"}


# --------------------------------------------------------------------------- static info --
def shape_of(s):
    op = s["op"]
    if op in ELEMENTWISE or op in ("AdditiveCondition",):
        return tuple(s["shape"])
    if op == "RQS":
        return ()
    if op in ("TriangularAffine", "Planar", "Coupling", "MAF", "BNAF"):
        return (s["dim"],)
    if op == "Chain":
        return shape_of(s["args"][0])
    if op in ("Scan", "Invert", "EmbedCondition"):
        return shape_of(s["child"])
    if op == "Vmap":
        return (s["n"], *shape_of(s["child"]))
    if op == "Concatenate":
        shapes = [shape_of(a) for a in s["args"]]
        return np.concatenate([np.zeros(sh) for sh in shapes], axis=s["axis"]).shape
    if op == "Stack":
        return np.stack([np.zeros(shape_of(a)) for a in s["args"]], axis=s["axis"]).shape
    if op in ("Partial", "Reshape"):
        return tuple(s["shape"])
    raise KeyError(op)


def cond_shape_of(s):
    op = s["op"]
    if op == "AdditiveCondition":
        return tuple(s["cond_shape"])
    if op in ("Planar", "Coupling", "MAF", "BNAF"):
        return None if s.get("cond_dim") is None else (s["cond_dim"],)
    if op in ("Chain", "Concatenate", "Stack"):
        cs = [cond_shape_of(a) for a in s["args"]]
        cs = [c for c in cs if c is not None]
        return cs[0] if cs else None
    if op in ("Scan", "Invert", "Partial"):
        return cond_shape_of(s["child"])
    if op == "Vmap":
        c = cond_shape_of(s["child"])
        ax = s.get("cond_axis")
        if c is None or ax is None:
            return c
        return np.stack([np.zeros(c)] * s["n"], axis=ax).shape  # numpy semantics for the new axis
    if op == "Reshape":
        c = s.get("cond_shape")
        return tuple(c) if c is not None else cond_shape_of(s["child"])
    if op == "EmbedCondition":
        return tuple(s["raw_cond_shape"])
    return None


def tags(s):
    """(domain tags, codomain tags) per coordinate, arrays of shape shape_of(s)."""
    op = s["op"]
    sh = shape_of(s)
    z = np.zeros(sh, dtype=int)
    if op in ("Exp", "SoftPlus"):
        return z, z + POS
    if op == "Tanh":
        return z, z + UNIT
    if op == "Invert":
        d, c = tags(s["child"])
        return c, d
    if op == "Chain":
        return tags(s["args"][0])[0], tags(s["args"][-1])[1]
    if op in ("Scan", "EmbedCondition"):
        return tags(s["child"])
    if op == "Vmap":
        d, c = tags(s["child"])
        return np.stack([d] * s["n"]), np.stack([c] * s["n"])
    if op == "Concatenate":
        ts = [tags(a) for a in s["args"]]
        return (np.concatenate([t[0] for t in ts], axis=s["axis"]), np.concatenate([t[1] for t in ts], axis=s["axis"]))
    if op == "Stack":
        ts = [tags(a) for a in s["args"]]
        return np.stack([t[0] for t in ts], axis=s["axis"]), np.stack([t[1] for t in ts], axis=s["axis"])
    if op == "Partial":
        d, c = tags(s["child"])
        idx = decode_index(s["idxs"], np_only=True)
        D, C = z.copy(), z.copy()
        D[idx], C[idx] = d, c
        return D, C
    if op == "Reshape":
        d, c = tags(s["child"])
        return d.reshape(sh), c.reshape(sh)
    return z, z.copy()


def numeric(s):
    """(transform uses a numerical search, inverse uses a numerical search)"""
    op = s["op"]
    if op == "BNAF":
        return (False, True)
    if op == "Invert":
        a, b = numeric(s["child"])
        return (b, a)
    kids = children(s)
    f = any(numeric(k)[0] for k in kids)
    i = any(numeric(k)[1] for k in kids)
    return (f, i)


def invertible(s):
    """False if the expression contains a leaf whose inverse is documented as not implemented."""
    op = s["op"]
    if op == "Planar" and s.get("negative_slope") is None:
        return False
    if op == "BNAF" and s.get("activation") == "callable":
        return False
    return all(invertible(k) for k in children(s))


def forward_ok(s):
    """False if `transform` itself would need a non-implemented inverse (Invert around such a leaf)."""
    op = s["op"]
    if op == "Invert":
        return invertible(s["child"])
    return all(forward_ok(k) for k in children(s))


def children(s):
    if "args" in s:
        return list(s["args"])
    if "child" in s:
        return [s["child"]]
    if s["op"] in ("Coupling", "MAF"):
        return []
    return []


def ops_in(s, acc=None):
    acc = set() if acc is None else acc
    acc.add(s["op"])
    for k in children(s):
        ops_in(k, acc)
    if s["op"] in ("Coupling", "MAF"):
        acc.add("transformer:" + s["transformer"]["op"])
    return acc


def size_of(s):
    return 1 + sum(size_of(k) for k in children(s))


# --------------------------------------------------------------------------- indices ------
def decode_index(enc, np_only=False):
    import jax.numpy as jnp

    k = next(iter(enc))
    v = enc[k]
    if k == "int":
        return int(v)
    if k == "slice":
        return slice(*v)
    if k == "ints":
        return np.asarray(v, dtype=int) if np_only else jnp.asarray(v, dtype=int)
    if k == "bools":
        return np.asarray(v, dtype=bool) if np_only else jnp.asarray(v, dtype=bool)
    if k == "tuple":
        return tuple(decode_index(e, np_only) for e in v)
    if k == "ellipsis":
        return Ellipsis
    raise KeyError(k)


# --------------------------------------------------------------------------- building -----
def _lin_map(key, in_shape, out_shape):
    """Harness callable module: linear map between arbitrary shapes (for AdditiveCondition/EmbedCondition)."""
    import equinox as eqx
    import jax.numpy as jnp
    import jax.random as jr

    class LinMap(eqx.Module):
        W: object
        out_shape: tuple = eqx.field(static=True)

        def __call__(self, c):
            return (self.W @ jnp.ravel(c)).reshape(self.out_shape)

    n_in, n_out = int(np.prod(in_shape, dtype=int)), int(np.prod(out_shape, dtype=int))
    return LinMap(jr.normal(key, (n_out, n_in)) * 0.7, tuple(out_shape))


def build(s, key):
    """Build the real flowjax bijection for spec `s` (values drawn from `key`, so vmapped construction
    gives every layer its own values)."""
    import equinox as eqx
    import jax
    import jax.numpy as jnp
    import jax.random as jr
    import flowjax.bijections as B

    op = s["op"]
    k = jr.split(key, 4)
    sh = tuple(s.get("shape", ()))

    def u(kk, shape, lo, hi):
        return jr.uniform(kk, shape, minval=lo, maxval=hi)

    def pos(kk, shape):
        return jnp.exp(u(kk, shape, math.log(0.2), math.log(5.0)))

    def signs(kk, shape):
        return jnp.where(jr.bernoulli(kk, 0.5, shape), 1.0, -1.0)

    if op == "Affine":
        scale = pos(k[1], sh)
        if s.get("tiny_scales"):  # many dimensions with small scales: the product of the scales underflows, the sum of logs does not
            scale = jnp.exp(u(k[1], sh, math.log(0.02), math.log(0.1)))
        if s.get("scalar_scale"):  # scale of lower rank than loc: broadcast by the constructor
            scale = jnp.exp(u(k[1], (), math.log(0.3), math.log(3.0)))
        b = B.Affine(u(k[0], sh, -3, 3), scale)
        if s.get("neg"):
            b = eqx.tree_at(lambda a: a.scale, b, pos(k[1], sh) * signs(k[2], sh))
        return b
    if op == "Loc":
        return B.Loc(u(k[0], sh, -3, 3))
    if op == "Scale":
        b = B.Scale(pos(k[1], sh))
        if s.get("neg"):
            b = eqx.tree_at(lambda a: a.scale, b, pos(k[1], sh) * signs(k[2], sh))
        return b
    if op == "TriangularAffine":
        d = s["dim"]
        arr = u(k[0], (d, d), -1.5, 1.5)
        arr = arr.at[jnp.diag_indices(d)].set(pos(k[1], (d,)))
        loc = u(k[2], (d,), -3, 3) if not s.get("scalar_loc") else u(k[2], (), -3, 3)
        b = B.TriangularAffine(loc, arr, lower=s.get("lower", True))
        if s.get("neg"):
            # user-replaced parameterisation with positive and negative diagonal entries (as the suite's
            # "pos and neg diag" case), kept triangular under any update of the raw matrix
            from flowjax.wrappers import Lambda

            full = unwrap_(b.triangular)
            full = full * jnp.where(jnp.eye(d, dtype=bool), signs(k[3], (d, 1)) * jnp.ones((d, d)), 1.0)
            tri = jnp.tril if s.get("lower", True) else jnp.triu
            b = eqx.tree_at(lambda t: t.triangular, b, Lambda(tri, full))
        return b
    if op == "Exp":
        return B.Exp(sh)
    if op == "SoftPlus":
        return B.SoftPlus(sh)
    if op == "Tanh":
        return B.Tanh(sh)
    if op == "LeakyTanh":
        return B.LeakyTanh(s["max_val"], sh)
    if op == "Identity":
        return B.Identity(sh)
    if op == "Flip":
        return B.Flip(sh)
    if op == "Permute":
        n = int(np.prod(sh, dtype=int))
        return B.Permute(jr.permutation(k[0], jnp.arange(n)).reshape(sh))
    if op == "RQS":
        iv = s["interval"]
        iv = tuple(iv) if isinstance(iv, (list, tuple)) else iv
        kw = {}
        if "min_derivative" in s:
            kw["min_derivative"] = s["min_derivative"]
        if "softmax_adjust" in s:
            kw["softmax_adjust"] = s["softmax_adjust"]
        b = B.RationalQuadraticSpline(knots=s["knots"], interval=iv, **kw)
        if s.get("randomize", True):
            # move the raw parameters away from the identity initialisation
            from fjmon.common import partition_trainable

            params, static = partition_trainable(b)
            leaves, td = jax.tree_util.tree_flatten(params)
            ks = jr.split(k[0], len(leaves))
            leaves = [l + 0.8 * jr.normal(kk, l.shape) for l, kk in zip(leaves, ks)]
            b = eqx.combine(jax.tree_util.tree_unflatten(td, leaves), static)
        return b
    if op == "Planar":
        kw = {}
        if s.get("cond_dim") is not None:
            kw = {"width_size": s.get("nn_width", 4), "depth": s.get("nn_depth", 1)}
        b = B.Planar(k[0], dim=s["dim"], cond_dim=s.get("cond_dim"), negative_slope=s.get("negative_slope"), **kw)
        if s.get("cond_dim") is None:
            prm = jr.normal(k[1], b.params.shape) * s.get("pscale", 1.0)
            if s.get("zero_w"):  # weight vector exactly zero: a finite, reachable parameter value (the map is then a pure shift)
                prm = prm.at[: s["dim"]].set(0.0)
            b = eqx.tree_at(lambda p: p.params, b, prm)
        return b
    if op == "AdditiveCondition":
        return B.AdditiveCondition(_lin_map(k[0], tuple(s["cond_shape"]), sh), sh, tuple(s["cond_shape"]))
    if op in ("Coupling", "MAF"):
        tr = build(dict(s["transformer"], randomize=False), jr.PRNGKey(s.get("tseed", 7)))
        if op == "Coupling":
            b = B.Coupling(k[0], transformer=tr, untransformed_dim=s["untransformed_dim"], dim=s["dim"],
                           cond_dim=s.get("cond_dim"), nn_width=s.get("nn_width", 5), nn_depth=s.get("nn_depth", 1))
        else:
            b = B.MaskedAutoregressive(k[0], transformer=tr, dim=s["dim"], cond_dim=s.get("cond_dim"),
                                       nn_width=s.get("nn_width", 5), nn_depth=s.get("nn_depth", 1))
        return b
    if op == "BNAF":
        act = None
        if s.get("activation") == "callable":
            act = _softsign_like
        elif s.get("activation") == "tanh":
            act = B.Tanh()
        return B.BlockAutoregressiveNetwork(k[0], dim=s["dim"], cond_dim=s.get("cond_dim"), depth=s["depth"],
                                            block_dim=s["block_dim"], activation=act)
    if op == "Chain":
        ks = jr.split(k[0], len(s["args"]))
        return B.Chain([build(a, kk) for a, kk in zip(s["args"], ks)])
    if op == "Scan":
        ks = jr.split(k[0], s["n"])
        return B.Scan(eqx.filter_vmap(lambda kk: build(s["child"], kk))(ks))
    if op == "Vmap":
        kw = {}
        if s.get("cond_axis") is not None:
            kw["in_axes_condition"] = s["cond_axis"]
        if s["mode"] == "size":
            return B.Vmap(build(s["child"], k[0]), axis_size=s["n"], **kw)
        ks = jr.split(k[0], s["n"])
        stacked = eqx.filter_vmap(lambda kk: build(s["child"], kk))(ks)
        if not jax.tree_util.tree_leaves(eqx.filter(unwrap_(stacked), eqx.is_array)):
            return B.Vmap(build(s["child"], k[0]), axis_size=s["n"], **kw)  # nothing to map over
        return B.Vmap(stacked, in_axes=eqx.if_array(0), **kw)
    if op in ("Concatenate", "Stack"):
        ks = jr.split(k[0], len(s["args"]))
        cls = B.Concatenate if op == "Concatenate" else B.Stack
        return cls([build(a, kk) for a, kk in zip(s["args"], ks)], axis=s["axis"])
    if op == "Partial":
        return B.Partial(build(s["child"], k[0]), decode_index(s["idxs"], np_only=bool(s.get("np_idxs"))), sh)  # np_idxs: NumPy index arrays
    if op == "Invert":
        return B.Invert(build(s["child"], k[0]))
    if op == "Reshape":
        cs = s.get("cond_shape")
        return B.Reshape(build(s["child"], k[0]), sh, tuple(cs) if cs is not None else None)
    if op == "EmbedCondition":
        child = build(s["child"], k[0])
        net = _lin_map(k[1], tuple(s["raw_cond_shape"]), child.cond_shape)
        return B.EmbedCondition(child, net, tuple(s["raw_cond_shape"]))
    raise KeyError(op)


def unwrap_(x):
    from flowjax.wrappers import unwrap

    return unwrap(x)


def _softsign_like(x):
    # smooth strictly increasing real->real callable activation (for _CallableToBijection)
    import jax.numpy as jnp

    return x + 0.5 * jnp.tanh(x)


# --------------------------------------------------------------------------- generation ---
DIMS = [2, 3, 5, 7]


def leaf_catalogue():
    """Every leaf class x constructor variants (fixed list; each appears in exactly one shard)."""
    L = []
    for sh in [(), (3,), (2, 3)]:
        L += [{"op": "Affine", "shape": sh}, {"op": "Affine", "shape": sh, "neg": True}, {"op": "Loc", "shape": sh},
              {"op": "Scale", "shape": sh}, {"op": "Scale", "shape": sh, "neg": True}, {"op": "Exp", "shape": sh},
              {"op": "SoftPlus", "shape": sh}, {"op": "Tanh", "shape": sh}, {"op": "Identity", "shape": sh},
              {"op": "Flip", "shape": sh}]
        for mv in (0.5, 1, 3):
            L.append({"op": "LeakyTanh", "max_val": mv, "shape": sh})
    for sh in [(5,), (2, 3), (2, 3, 2)]:
        L.append({"op": "Permute", "shape": sh})
    # a dimension threshold: 300 scales in [0.02, 0.1] (sum of logs ~ -800: a product-based formula under/overflows even in float64)
    L.append({"op": "Affine", "shape": (3,), "scalar_scale": True})
    L.append({"op": "Affine", "shape": (2, 3), "scalar_scale": True})
    L.append({"op": "Invert", "child": {"op": "Affine", "shape": (5,), "scalar_scale": True}})
    L.append({"op": "Affine", "shape": (300,), "tiny_scales": True})
    L.append({"op": "Invert", "child": {"op": "Affine", "shape": (300,), "tiny_scales": True}})
    for d in (1, 2, 3, 5):
        for lower in (True, False):
            L.append({"op": "TriangularAffine", "dim": d, "lower": lower})
        L.append({"op": "TriangularAffine", "dim": d, "lower": True, "neg": True})
        L.append({"op": "TriangularAffine", "dim": d, "lower": False, "scalar_loc": True})
    for knots, iv in [(1, 1), (3, [-1.0, 2.0]), (5, 4), (8, [0.5, 3.5]), (4, 0.25)]:
        L.append({"op": "RQS", "knots": knots, "interval": iv})
    L.append({"op": "RQS", "knots": 4, "interval": 2, "min_derivative": 0.1, "softmax_adjust": 0.5})
    L.append({"op": "RQS", "knots": 5, "interval": 3, "randomize": False})
    for d in (1, 2, 4):
        for ns in (0.1, 0.7, None):
            L.append({"op": "Planar", "dim": d, "negative_slope": ns})
            L.append({"op": "Planar", "dim": d, "negative_slope": ns, "cond_dim": 2})
        L.append({"op": "Planar", "dim": d, "negative_slope": 0.3, "pscale": 1.5})
        L.append({"op": "Planar", "dim": d, "negative_slope": 2.5, "pscale": 1.5})  # slopes above 1 are legal
        L.append({"op": "Planar", "dim": d, "negative_slope": 0.3, "zero_w": True})
        L.append({"op": "Planar", "dim": d, "negative_slope": None, "zero_w": True})
    L += [{"op": "AdditiveCondition", "shape": (3,), "cond_shape": (2,)},
          {"op": "AdditiveCondition", "shape": (2, 3), "cond_shape": (2,)},
          {"op": "AdditiveCondition", "shape": (), "cond_shape": ()},
          {"op": "AdditiveCondition", "shape": (3,), "cond_shape": (2, 2)}]
    rqs = {"op": "RQS", "knots": 4, "interval": 3}
    aff = {"op": "Affine", "shape": ()}
    for tr in (aff, rqs, {"op": "Loc", "shape": ()}, {"op": "Scale", "shape": ()}):
        for cd in (None, 2):
            L.append({"op": "Coupling", "dim": 3, "untransformed_dim": 1, "cond_dim": cd, "transformer": tr, "nn_width": 5, "nn_depth": 1})
            L.append({"op": "MAF", "dim": 3, "cond_dim": cd, "transformer": tr, "nn_width": 5, "nn_depth": 1})
    L.append({"op": "Coupling", "dim": 5, "untransformed_dim": 3, "cond_dim": None, "transformer": aff, "nn_width": 3, "nn_depth": 2})
    L.append({"op": "Coupling", "dim": 2, "untransformed_dim": 1, "cond_dim": 3, "transformer": rqs, "nn_width": 4, "nn_depth": 0})
    L.append({"op": "MAF", "dim": 1, "cond_dim": None, "transformer": aff, "nn_width": 3, "nn_depth": 1})
    L.append({"op": "MAF", "dim": 1, "cond_dim": 2, "transformer": rqs, "nn_width": 3, "nn_depth": 1})
    L.append({"op": "MAF", "dim": 4, "cond_dim": None, "transformer": aff, "nn_width": 2, "nn_depth": 2})
    L.append({"op": "MAF", "dim": 2, "cond_dim": 1, "transformer": rqs, "nn_width": 6, "nn_depth": 0})
    for d, cd, depth, bd in [(1, None, 0, 1), (2, None, 1, 2), (3, 2, 1, 3), (2, None, 2, 2), (3, None, 0, 1), (2, 1, 2, 3)]:
        L.append({"op": "BNAF", "dim": d, "cond_dim": cd, "depth": depth, "block_dim": bd})
    L.append({"op": "BNAF", "dim": 2, "cond_dim": None, "depth": 1, "block_dim": 2, "activation": "callable"})
    return L


def combinator_catalogue():
    """One hand-written instance of every combinator in several axis / index variants."""
    a3 = {"op": "Affine", "shape": (3,)}
    a23 = {"op": "Affine", "shape": (2, 3)}
    rq = {"op": "RQS", "knots": 4, "interval": [-2.0, 3.0]}
    C = []
    C.append({"op": "Chain", "args": [a3, {"op": "LeakyTanh", "max_val": 1, "shape": (3,)}, {"op": "Permute", "shape": (3,)},
                                      {"op": "TriangularAffine", "dim": 3, "lower": True}]})
    C.append({"op": "Chain", "args": [a3, {"op": "Exp", "shape": (3,)}]})
    C.append({"op": "Chain", "args": [{"op": "Invert", "child": {"op": "SoftPlus", "shape": (3,)}}, a3, {"op": "Tanh", "shape": (3,)}]})
    C.append({"op": "Chain", "args": [{"op": "Chain", "args": [a3, {"op": "Flip", "shape": (3,)}]},
                                      {"op": "AdditiveCondition", "shape": (3,), "cond_shape": (2,)}]})
    C.append({"op": "Scan", "n": 3, "child": a3})
    C.append({"op": "Scan", "n": 2, "child": {"op": "Chain", "args": [
        {"op": "Coupling", "dim": 3, "untransformed_dim": 1, "cond_dim": 2, "transformer": {"op": "Affine", "shape": ()}, "nn_width": 4, "nn_depth": 1},
        {"op": "Permute", "shape": (3,)}]}})
    C.append({"op": "Scan", "n": 2, "child": {"op": "MAF", "dim": 3, "cond_dim": None, "transformer": rq, "nn_width": 4, "nn_depth": 1}})
    for mode in ("size", "params"):
        C.append({"op": "Vmap", "mode": mode, "n": 5, "child": rq})
        C.append({"op": "Vmap", "mode": mode, "n": 2, "child": a3})
        C.append({"op": "Vmap", "mode": mode, "n": 3, "child": {"op": "Vmap", "mode": "params", "n": 2, "child": rq}})
        C.append({"op": "Vmap", "mode": mode, "n": 5, "child": {"op": "AdditiveCondition", "shape": (3,), "cond_shape": (2,)}})
        for ax in (0, 1):
            C.append({"op": "Vmap", "mode": mode, "n": 5, "cond_axis": ax,
                      "child": {"op": "AdditiveCondition", "shape": (3,), "cond_shape": (2,)}})
    C.append({"op": "Vmap", "mode": "params", "n": 3, "child": {"op": "Planar", "dim": 2, "negative_slope": 0.2}})
    for n in (7, 8, 11):
        C.append({"op": "Vmap", "mode": "params", "n": n, "child": rq})
        C.append({"op": "Vmap", "mode": "size", "n": n, "child": {"op": "Affine", "shape": (2,), "neg": True}})
    C.append({"op": "Scan", "n": 9, "child": a3})
    C.append({"op": "Chain", "args": [a3] * 8 + [{"op": "LeakyTanh", "max_val": 1, "shape": (3,)}]})
    for ax in (0, 1, -1, -2):
        C.append({"op": "Concatenate", "axis": ax, "args": [a23, {"op": "Affine", "shape": (5, 3) if ax in (0, -2) else (2, 5)},
                                                              {"op": "LeakyTanh", "max_val": 1, "shape": (7, 3) if ax in (0, -2) else (2, 7)}]})
    C.append({"op": "Concatenate", "axis": 0, "args": [a3, {"op": "Exp", "shape": (2,)}, {"op": "Tanh", "shape": (5,)}]})
    C.append({"op": "Concatenate", "axis": -1, "args": [a3, {"op": "AdditiveCondition", "shape": (2,), "cond_shape": (2,)}]})
    for ax in (0, 1, 2):
        C.append({"op": "Stack", "axis": ax, "args": [a23, {"op": "LeakyTanh", "max_val": 1, "shape": (2, 3)},
                                                        {"op": "Loc", "shape": (2, 3)}, {"op": "Scale", "shape": (2, 3)},
                                                        {"op": "Identity", "shape": (2, 3)}]})
    C.append({"op": "Stack", "axis": 0, "args": [rq, {"op": "Affine", "shape": ()}, {"op": "Exp", "shape": ()}]})
    C.append({"op": "Stack", "axis": 0, "args": [a3, {"op": "AdditiveCondition", "shape": (3,), "cond_shape": (2,)}]})
    full = (3, 5)
    for enc, sub in [({"int": 1}, (5,)), ({"int": -1}, (5,)), ({"slice": [0, 2, None]}, (2, 5)),
                     ({"slice": [None, None, 2]}, (2, 5)), ({"ints": [0, 2]}, (2, 5)), ({"ints": [2, 0]}, (2, 5)),
                     ({"tuple": [{"int": 1}, {"slice": [1, 4, None]}]}, (3,)),
                     ({"tuple": [{"ints": [0, 2]}, {"ints": [1, 3]}]}, (2,)),
                     ({"tuple": [{"slice": [None, None, None]}, {"ints": [4, 0, 2]}]}, (3, 3)),
                     ({"bools": [True, False, True]}, (2, 5))]:
        C.append({"op": "Partial", "idxs": enc, "shape": full, "child": {"op": "Affine", "shape": sub}})
    # the same index kinds handed over as NumPy arrays (boolean mask alone and inside a tuple, integer array)
    for enc, sub in [({"bools": [True, False, True]}, (2, 5)), ({"ints": [2, 0]}, (2, 5)),
                     ({"tuple": [{"bools": [False, True, True]}, {"slice": [None, None, None]}]}, (2, 5)),
                     ({"tuple": [{"slice": [None, None, None]}, {"bools": [True, False, False, True, True]}]}, (3, 3))]:
        C.append({"op": "Partial", "idxs": enc, "np_idxs": True, "shape": full, "child": {"op": "Affine", "shape": sub}})
    C.append({"op": "Partial", "idxs": {"slice": [1, 3, None]}, "shape": (5,),
              "child": {"op": "Coupling", "dim": 2, "untransformed_dim": 1, "cond_dim": 2, "transformer": {"op": "Affine", "shape": ()}, "nn_width": 4, "nn_depth": 1}})
    C.append({"op": "Partial", "idxs": {"ints": [0, 3]}, "shape": (5,), "child": {"op": "Exp", "shape": (2,)}})
    C.append({"op": "Invert", "child": a3})
    C.append({"op": "Invert", "child": {"op": "Exp", "shape": (3,)}})
    C.append({"op": "Invert", "child": {"op": "Tanh", "shape": (2,)}})
    C.append({"op": "Invert", "child": {"op": "MAF", "dim": 3, "cond_dim": 2, "transformer": rq, "nn_width": 4, "nn_depth": 1}})
    C.append({"op": "Invert", "child": {"op": "BNAF", "dim": 2, "cond_dim": None, "depth": 1, "block_dim": 2}})
    C.append({"op": "Invert", "child": {"op": "Planar", "dim": 3, "negative_slope": 0.1}})
    C.append({"op": "Reshape", "shape": (3, 2), "child": {"op": "Affine", "shape": (6,)}})
    C.append({"op": "Reshape", "shape": (), "child": {"op": "TriangularAffine", "dim": 1, "lower": True}})
    C.append({"op": "Reshape", "shape": (6,), "cond_shape": (2, 2),
              "child": {"op": "Vmap", "mode": "params", "n": 2, "child": {"op": "AdditiveCondition", "shape": (3,), "cond_shape": (4,)}}})
    C.append({"op": "Reshape", "shape": (2, 3), "child": {"op": "MAF", "dim": 6, "cond_dim": None, "transformer": {"op": "Affine", "shape": ()}, "nn_width": 6, "nn_depth": 1}})
    C.append({"op": "EmbedCondition", "raw_cond_shape": (5,),
              "child": {"op": "Coupling", "dim": 3, "untransformed_dim": 2, "cond_dim": 2, "transformer": rq, "nn_width": 4, "nn_depth": 1}})
    C.append({"op": "EmbedCondition", "raw_cond_shape": (2, 3), "child": {"op": "AdditiveCondition", "shape": (3,), "cond_shape": (2,)}})
    # every kind of *unconditional* member next to a conditional sibling: it receives a condition it has to ignore
    aff = lambda sh: {"op": "Affine", "shape": sh}
    unconds = [
        ({"op": "Reshape", "shape": (6,), "child": aff((2, 3))}, (6,)),
        ({"op": "Reshape", "shape": (2, 3), "child": {"op": "Chain", "args": [aff((6,)), {"op": "Tanh", "shape": (6,)}]}}, (2, 3)),
        ({"op": "Partial", "idxs": {"ints": [0, 2]}, "shape": (3,), "child": {"op": "Exp", "shape": (2,)}}, (3,)),
        ({"op": "Invert", "child": {"op": "TriangularAffine", "dim": 3, "lower": True}}, (3,)),
        ({"op": "Vmap", "mode": "size", "n": 3, "child": {"op": "LeakyTanh", "max_val": 1, "shape": ()}}, (3,)),
        ({"op": "Scan", "n": 2, "child": aff((3,))}, (3,)),
        ({"op": "Concatenate", "axis": 0, "args": [aff((2,)), {"op": "SoftPlus", "shape": (1,)}]}, (3,)),
        ({"op": "Stack", "axis": 0, "args": [aff((3,)), {"op": "Loc", "shape": (3,)}]}, (2, 3)),
        ({"op": "Permute", "shape": (3,)}, (3,)), ({"op": "Flip", "shape": (3,)}, (3,)),
        ({"op": "Vmap", "mode": "size", "n": 3, "child": {"op": "RQS", "knots": 3, "interval": 2}}, (3,)),
        ({"op": "Planar", "dim": 3, "negative_slope": 0.4}, (3,)),
        ({"op": "BNAF", "dim": 3, "cond_dim": None, "depth": 1, "block_dim": 2}, (3,)),
    ]
    for u, sh in unconds:
        C.append({"op": "Chain", "args": [{"op": "AdditiveCondition", "shape": sh, "cond_shape": (2,)}, u]})
    C.append({"op": "Stack", "axis": 0, "args": [{"op": "AdditiveCondition", "shape": (6,), "cond_shape": (2,)}, unconds[0][0]]})
    C.append({"op": "Concatenate", "axis": 0, "args": [{"op": "AdditiveCondition", "shape": (2,), "cond_shape": (3,)}, unconds[2][0], unconds[5][0]]})
    return C


def flow_layer_specs():
    """Specs mirroring the `.bijection` of the five flow factories (built by the factories themselves in
    fjmon.flowgen; these are only used by interpreters that need a spec)."""
    return []


class Gen:
    """Random expression trees: depth <= 3, width <= 3, ranks 0-3, pairwise distinct axis sizes."""

    def __init__(self, rng, allow_bnaf=True):
        self.rng = rng
        self.allow_bnaf = allow_bnaf

    def choice(self, xs):
        return xs[int(self.rng.integers(0, len(xs)))]

    def rand_shape(self, rank=None):
        rank = int(self.rng.integers(0, 4)) if rank is None else rank
        dims = list(self.rng.permutation(DIMS))[:rank]
        return tuple(int(d) for d in dims)

    def rqs(self):
        iv = self.choice([1, 3, [-1.0, 2.0], [0.5, 3.5], 0.25])
        return {"op": "RQS", "knots": int(self.rng.integers(1, 9)), "interval": iv}

    def transformer(self):
        return self.choice([{"op": "Affine", "shape": ()}, self.rqs(), {"op": "Affine", "shape": ()}])

    def leaf(self, shape, cond, end=None):
        """A leaf with the given shape; cond: None (must be unconditional) or a cond shape (must be conditional).
        end: None (R->R only), 'last' (codomain may be restricted), 'first' (domain may be restricted)."""
        rng = self.rng
        rank = len(shape)
        if cond is not None:
            opts = ["AdditiveCondition"]
            if rank == 1 and len(cond) == 1:
                opts += ["PlanarC", "CouplingC" if shape[0] >= 2 else "MAFC", "MAFC"]
                if self.allow_bnaf and shape[0] <= 3:
                    opts.append("BNAFC")
            o = self.choice(opts)
            if o == "AdditiveCondition":
                return {"op": "AdditiveCondition", "shape": shape, "cond_shape": cond}
            if o == "PlanarC":
                return {"op": "Planar", "dim": shape[0], "cond_dim": cond[0], "negative_slope": float(self.choice([0.1, 0.5]))}
            if o == "CouplingC":
                return {"op": "Coupling", "dim": shape[0], "untransformed_dim": int(rng.integers(1, shape[0])), "cond_dim": cond[0],
                        "transformer": self.transformer(), "nn_width": int(rng.integers(2, 7)), "nn_depth": int(rng.integers(0, 3))}
            if o == "MAFC":
                return {"op": "MAF", "dim": shape[0], "cond_dim": cond[0], "transformer": self.transformer(),
                        "nn_width": int(rng.integers(2, 7)), "nn_depth": int(rng.integers(0, 3))}
            return {"op": "BNAF", "dim": shape[0], "cond_dim": cond[0], "depth": int(rng.integers(0, 3)), "block_dim": int(rng.integers(1, 4))}
        opts = ["Affine", "AffineNeg", "Loc", "Scale", "LeakyTanh", "Identity", "Flip"]
        if rank == 0:
            opts += ["RQS", "RQS"]
        if rank >= 1:
            opts += ["Permute"]
        if rank == 1:
            opts += ["TriangularAffine", "Planar", "MAF", "TriangularAffine"]
            if shape[0] >= 2:
                opts += ["Coupling"]
            if self.allow_bnaf and shape[0] <= 3:
                opts += ["BNAF"]
        if end == "last":
            opts += ["Exp", "SoftPlus", "Tanh"]
        if end == "first":
            opts += ["InvExp", "InvSoftPlus", "InvTanh"]
        o = self.choice(opts)
        if o in ("Affine", "Loc", "Scale", "Identity", "Flip", "Permute", "Exp", "SoftPlus", "Tanh"):
            return {"op": o, "shape": shape}
        if o == "AffineNeg":
            return {"op": self.choice(["Affine", "Scale"]), "shape": shape, "neg": True}
        if o.startswith("Inv"):
            return {"op": "Invert", "child": {"op": o[3:], "shape": shape}}
        if o == "LeakyTanh":
            return {"op": "LeakyTanh", "max_val": self.choice([0.5, 1, 3]), "shape": shape}
        if o == "RQS":
            return self.rqs()
        if o == "TriangularAffine":
            return {"op": "TriangularAffine", "dim": shape[0], "lower": bool(rng.random() < 0.5), "neg": bool(rng.random() < 0.3)}
        if o == "Planar":
            return {"op": "Planar", "dim": shape[0], "negative_slope": float(self.choice([0.1, 0.5, 0.9, 1.8]))}
        if o == "MAF":
            return {"op": "MAF", "dim": shape[0], "cond_dim": None, "transformer": self.transformer(),
                    "nn_width": int(rng.integers(2, 7)), "nn_depth": int(rng.integers(0, 3))}
        if o == "Coupling":
            return {"op": "Coupling", "dim": shape[0], "untransformed_dim": int(rng.integers(1, shape[0])), "cond_dim": None,
                    "transformer": self.transformer(), "nn_width": int(rng.integers(2, 7)), "nn_depth": int(rng.integers(0, 3))}
        if o == "BNAF":
            return {"op": "BNAF", "dim": shape[0], "cond_dim": None, "depth": int(rng.integers(0, 3)), "block_dim": int(rng.integers(1, 4))}
        raise KeyError(o)

    def tree(self, shape, cond, depth, end=None):
        """Random tree with exactly this shape. cond: None -> unconditional; tuple -> cond_shape must equal it."""
        rng = self.rng
        rank = len(shape)
        if depth <= 0 or rng.random() < 0.25:
            return self.leaf(shape, cond, end)
        opts = ["Chain", "Chain", "Invert", "Scan"]
        if rank >= 1:
            opts += ["Vmap", "Vmap", "Stack", "Concatenate", "Partial", "Reshape"]
        else:
            opts += ["Reshape"]
        if cond is not None:
            opts += ["EmbedCondition"]
        o = self.choice(opts)
        try:
            if o == "Chain":
                n = int(rng.integers(2, 4))
                carrier = int(rng.integers(0, n))  # which child carries the condition (others may too)
                args = []
                for i in range(n):
                    c = cond if (cond is not None and (i == carrier or rng.random() < 0.3)) else None
                    e = "first" if (i == 0 and end == "first") else ("last" if (i == n - 1 and end == "last") else None)
                    args.append(self.tree(shape, c, depth - 1, e))
                return {"op": "Chain", "args": args}
            if o == "Invert":
                e = {"first": "last", "last": "first", None: None}[end]
                return {"op": "Invert", "child": self.tree(shape, cond, depth - 1, e)}
            if o == "Scan":
                return {"op": "Scan", "n": int(rng.integers(2, 4)), "child": self.tree(shape, cond, depth - 1, None)}
            if o == "Vmap":
                n, inner = shape[0], shape[1:]
                mode = self.choice(["size", "params"])
                if cond is not None and len(cond) >= 1 and rng.random() < 0.5:
                    # map over a condition axis: choose an axis whose size is n
                    axes = [i for i, d in enumerate(cond) if d == n]
                    if axes:
                        ax = self.choice(axes)
                        ccond = tuple(d for i, d in enumerate(cond) if i != ax)
                        return {"op": "Vmap", "mode": mode, "n": n, "cond_axis": ax, "child": self.tree(inner, ccond, depth - 1, end)}
                return {"op": "Vmap", "mode": mode, "n": n, "child": self.tree(inner, cond, depth - 1, end)}
            if o == "Stack":
                ax = int(rng.integers(0, rank))
                if rng.random() < 0.5:
                    ax -= rank
                n = shape[ax]
                inner = tuple(d for i, d in enumerate(shape) if i != ax % rank)
                carrier = int(rng.integers(0, n))
                args = [self.tree(inner, cond if (cond is not None and (i == carrier or rng.random() < 0.3)) else None, depth - 1, end)
                        for i in range(n)]
                return {"op": "Stack", "axis": ax, "args": args}
            if o == "Concatenate":
                ax = int(rng.integers(0, rank))
                total = shape[ax]
                if total < 2:
                    return self.leaf(shape, cond, end)
                k = int(rng.integers(2, min(3, total) + 1))
                cuts = sorted(rng.choice(np.arange(1, total), size=k - 1, replace=False).tolist())
                sizes = np.diff([0, *cuts, total]).tolist()
                if rng.random() < 0.5:
                    ax -= rank
                carrier = int(rng.integers(0, k))
                args = []
                for i, sz in enumerate(sizes):
                    sh = list(shape)
                    sh[ax] = int(sz)
                    args.append(self.tree(tuple(sh), cond if (cond is not None and (i == carrier or rng.random() < 0.3)) else None, depth - 1, end))
                return {"op": "Concatenate", "axis": ax, "args": args}
            if o == "Partial":
                enc = self.rand_index(shape)
                sub = np.zeros(shape)[decode_index(enc, np_only=True)].shape
                return {"op": "Partial", "idxs": enc, "shape": shape, "child": self.tree(tuple(sub), cond, depth - 1, end)}
            if o == "Reshape":
                n = int(np.prod(shape, dtype=int))
                alts = [sh for sh in [(n,), (1, n), (n, 1)] + [(a, n // a) for a in (2, 3, 5) if n % a == 0 and n // a > 1] if sh != shape]
                inner = self.choice(alts)
                s = {"op": "Reshape", "shape": shape, "child": None}
                ccond = cond
                if cond is not None and rng.random() < 0.5:
                    m = int(np.prod(cond, dtype=int))
                    ccond = (m,) if cond != (m,) else (1, m)
                    s["cond_shape"] = cond
                s["child"] = self.tree(tuple(inner), ccond, depth - 1, None if len(inner) != rank else end)
                if end is not None and tags(s["child"])[0].any() | tags(s["child"])[1].any():
                    pass
                return s
            if o == "EmbedCondition":
                inner_c = self.choice([(2,), (3,), ()])
                return {"op": "EmbedCondition", "raw_cond_shape": cond, "child": self.tree(shape, inner_c, depth - 1, end)}
        except (ValueError, IndexError):
            pass
        return self.leaf(shape, cond, end)

    def rand_index(self, shape):
        rng = self.rng
        n = shape[0]
        kinds = ["int", "negint", "slice", "step", "ints", "bools"]
        if len(shape) >= 2:
            kinds += ["tuple_is", "tuple_aa", "tuple_sa"]
        k = self.choice(kinds)
        if k == "int":
            return {"int": int(rng.integers(0, n))}
        if k == "negint":
            return {"int": -int(rng.integers(1, n + 1))}
        if k == "slice":
            a = int(rng.integers(0, n - 1)) if n > 1 else 0
            b = int(rng.integers(a + 1, n + 1))
            return {"slice": [a, b, None]}
        if k == "step":
            return {"slice": [None, None, 2]}
        if k == "ints":
            m = int(rng.integers(1, n + 1))
            return {"ints": [int(v) for v in rng.permutation(n)[:m]]}
        if k == "bools":
            m = rng.random(n) < 0.5
            m[int(rng.integers(0, n))] = True
            return {"bools": [bool(v) for v in m]}
        m2 = shape[1]
        if k == "tuple_is":
            a = int(rng.integers(0, m2 - 1)) if m2 > 1 else 0
            return {"tuple": [{"int": int(rng.integers(0, n))}, {"slice": [a, int(rng.integers(a + 1, m2 + 1)), None]}]}
        if k == "tuple_aa":
            m = int(rng.integers(1, min(n, m2) + 1))
            return {"tuple": [{"ints": [int(v) for v in rng.permutation(n)[:m]]}, {"ints": [int(v) for v in rng.permutation(m2)[:m]]}]}
        return {"tuple": [{"slice": [None, None, None]}, {"ints": [int(v) for v in rng.permutation(m2)[: int(rng.integers(1, m2 + 1))]]}]}

    def random_spec(self, depth=None):
        rng = self.rng
        depth = int(rng.integers(1, 4)) if depth is None else depth
        for _ in range(50):
            shape = self.rand_shape()
            cond = None
            if rng.random() < 0.4:
                cond = self.choice([(2,), (3,), (), (2, 3), (5,)])
            end = self.choice([None, None, "last", "first"])
            s = self.tree(shape, cond, depth, end)
            if validate(s) and size_of(s) <= 9:
                return s
        return {"op": "Affine", "shape": (3,)}


def validate(s):
    """Type-correctness of a generated spec: chain typing, at most one numeric direction, shapes."""
    try:
        _validate(s)
        f, i = numeric(s)
        if f and i:
            return False
        shape_of(s)
        return True
    except Exception:
        return False


def _validate(s):
    op = s["op"]
    for k in children(s):
        _validate(k)
    if op == "Chain":
        shapes = [shape_of(a) for a in s["args"]]
        assert all(sh == shapes[0] for sh in shapes)
        conds = [c for c in (cond_shape_of(a) for a in s["args"]) if c is not None]
        assert all(c == conds[0] for c in conds)
        for a, b in zip(s["args"][:-1], s["args"][1:]):
            assert np.array_equal(tags(a)[1], tags(b)[0])
    if op == "Scan":
        d, c = tags(s["child"])
        assert not d.any() and not c.any()
        assert ops_in(s["child"]) & PARAM_OPS  # lax.scan needs array leaves to scan over
    if op in ("Concatenate", "Stack"):
        conds = [c for c in (cond_shape_of(a) for a in s["args"]) if c is not None]
        assert all(c == conds[0] for c in conds)
    if op in ("Coupling", "MAF"):
        assert shape_of(s["transformer"]) == ()
    if op == "Partial":
        idx = decode_index(s["idxs"], np_only=True)
        assert np.zeros(s["shape"])[idx].shape == shape_of(s["child"])
    if op == "Reshape":
        assert int(np.prod(s["shape"], dtype=int)) == int(np.prod(shape_of(s["child"]), dtype=int))
