"""Pull critical values of *inner* leaves back to the outer input (DESIGN 3.3).

The expression is flattened into elementary steps (Scan layers are unstacked by slicing every array leaf, Chains are
flattened, Invert distributes over its members in reverse order).  For a step whose leaf branches on known values
(spline interval ends, leaky-tanh switch points) the outer input that makes the step see exactly that value is
obtained with the library's own inverse / forward of the surrounding steps (generator use only - the oracle never
trusts it) and then *measured*: the surrounding steps are re-applied and the number of coordinates that hit the
critical value exactly is counted; float neighbours of the candidate are tried to maximise it."""
from __future__ import annotations

import math

import numpy as np


def steps_of(b):
    """Elementary steps of `b` in forward (transform) order."""
    import equinox as eqx
    import jax
    import flowjax.bijections as B

    if isinstance(b, B.Invert):
        return [B.Invert(s) for s in reversed(steps_of(b.bijection))]
    if isinstance(b, B.Chain):
        out = []
        for m in b.bijections:
            out += steps_of(m)
        return out
    if isinstance(b, B.Scan):
        leaves = [l for l in jax.tree_util.tree_leaves(b.bijection) if eqx.is_array(l)]
        if not leaves:
            return [b]
        L = leaves[0].shape[0]
        out = []
        for i in range(L):
            layer = jax.tree_util.tree_map(lambda l: l[i] if eqx.is_array(l) else l, b.bijection)
            out += steps_of(layer)
        return out
    return [b]


def step_criticals(step):
    """-> {'fwd': [vectors], 'inv': [vectors]} critical input vectors of this step for each direction (may be empty)."""
    import jax.numpy as jnp
    import flowjax.bijections as B
    from flowjax.wrappers import unwrap

    inv = isinstance(step, B.Invert)
    core = step.bijection if inv else step
    shape = tuple(core.shape)
    if len(shape) > 1:
        return {"fwd": [], "inv": []}
    n = shape[0] if shape else 1
    fwd, bwd = [], []

    def patterns(vals):
        lo, hi = vals
        alt = np.where(np.arange(n) % 2 == 0, lo, hi)
        return [np.full(n, lo), np.full(n, hi), alt, alt[::-1].copy()]

    try:
        if isinstance(core, B.RationalQuadraticSpline):
            lo, hi = core.interval
            fwd = bwd = [np.asarray([lo]), np.asarray([hi])]
        elif isinstance(core, B.Vmap) and isinstance(core.bijection, B.RationalQuadraticSpline):
            fwd = bwd = patterns(core.bijection.interval)
        elif isinstance(core, (B.MaskedAutoregressive, B.Coupling)):
            tr = core.transformer_constructor(jnp.zeros(_num_params(core)))
            if isinstance(tr, B.RationalQuadraticSpline):
                fwd = bwd = patterns(tr.interval)
        elif isinstance(core, B.LeakyTanh):
            m, t = core.max_val, math.tanh(core.max_val)
            fwd = patterns((-m, m))
            bwd = patterns((-t, t)) + patterns((-1.0, 1.0))
    except Exception:  # noqa: BLE001
        return {"fwd": [], "inv": []}
    if inv:
        fwd, bwd = bwd, fwd
    rs = (lambda v: v.reshape(shape)) if shape else (lambda v: v.reshape(()))
    return {"fwd": [rs(np.asarray(v, dtype=np.float64)) for v in fwd], "inv": [rs(np.asarray(v, dtype=np.float64)) for v in bwd]}


def _num_params(core):
    import flowjax.bijections as B

    mlp = core.conditioner if isinstance(core, B.Coupling) else core.masked_autoregressive_mlp
    dim = core.shape[0] - (core.untransformed_dim if isinstance(core, B.Coupling) else 0)
    return mlp.out_size // dim


def pulled_back_points(b, direction, cond_shape, rng, fdt, max_steps=3, max_points=10):
    """Outer inputs (for `direction` in {'fwd','inv'}: the method applied first is transform / inverse) that make inner
    steps see exact critical values.  Returns (points list, conditions list|None, stats dict)."""
    import equinox as eqx
    import jax
    import jax.numpy as jnp
    import flowjax.bijections as B

    stats = {"pullback_candidates": 0, "pullback_exact_coordinate_hits": 0, "pullback_points_with_exact_hit": 0}
    try:
        steps = steps_of(b)
    except Exception:  # noqa: BLE001
        return [], None, stats
    m = len(steps)
    if m < 2:
        return [], None, stats
    idx = [k for k in range(m) if step_criticals(steps[k])[direction]]
    # inner steps only (the outermost one already sees the top-level critical inputs)
    idx = [k for k in idx if (k > 0 if direction == "fwd" else k < m - 1)]
    if not idx:
        return [], None, stats
    rng.shuffle(idx)
    pts, conds = [], []
    jit_t = eqx.filter_jit(lambda ch, v, c: ch.transform(v, c))
    jit_i = eqx.filter_jit(lambda ch, v, c: ch.inverse(v, c))
    for k in idx[:max_steps]:
        around = steps[:k] if direction == "fwd" else steps[k + 1:]
        try:
            ch = B.Chain(around)
        except Exception:  # noqa: BLE001
            continue
        crits = step_criticals(steps[k])[direction]
        for ci in rng.permutation(len(crits))[:3]:
            c = crits[ci]
            cond = None if cond_shape is None else jnp.asarray(rng.standard_normal(cond_shape).astype(fdt))
            ccond = cond if ch.cond_shape is not None else None
            try:
                x0 = np.asarray((jit_i if direction == "fwd" else jit_t)(ch, jnp.asarray(c.astype(fdt)), ccond), dtype=np.float64)
            except Exception:  # noqa: BLE001
                break
            if not np.all(np.isfinite(x0)):
                continue
            stats["pullback_candidates"] += 1
            best, best_hits = None, -1
            sp = np.spacing(np.abs(x0.astype(fdt))).astype(np.float64)
            for off in (0, 1, -1, 2, -2):
                xv = (x0 + off * sp).astype(fdt)
                try:
                    seen = np.asarray((jit_t if direction == "fwd" else jit_i)(ch, jnp.asarray(xv), ccond), dtype=np.float64)
                except Exception:  # noqa: BLE001
                    continue
                hits = int(np.sum(seen == c))
                if hits > best_hits:
                    best, best_hits = xv, hits
            if best is None:
                continue
            pts.append(np.asarray(best, dtype=fdt))
            conds.append(None if cond is None else np.asarray(cond))
            stats["pullback_exact_coordinate_hits"] += max(best_hits, 0)
            stats["pullback_points_with_exact_hit"] += int(best_hits > 0)
            if len(pts) >= max_points:
                return pts, (conds if cond_shape is not None else None), stats
    return pts, (conds if cond_shape is not None else None), stats
