"""Worker-side environment: import the *working tree* of flowjax, x64 switch, equinox
shim, reach monitor.  Imported first thing by fjmon.worker (before jax/flowjax)."""
from __future__ import annotations

import ast
import os
import sys

VERIF_DIR = os.path.dirname(os.path.dirname(os.path.abspath(__file__)))
REPO = os.environ.get("VERIF_REPO", "/repo")

_state = {"x64": None, "shim": False, "lines": {}, "monitor": False}


def setup(x64: bool = True, reach: bool = True):
    """Configure the process. Must be called before flowjax is imported."""
    os.environ.setdefault("JAX_PLATFORMS", "cpu")
    os.environ.setdefault("XLA_FLAGS", "--xla_cpu_multi_thread_eigen=false intra_op_parallelism_threads=1")
    os.environ.setdefault("OMP_NUM_THREADS", "1")
    os.environ.setdefault("TQDM_DISABLE", "1")
    if REPO in sys.path:
        sys.path.remove(REPO)
    sys.path.insert(0, REPO)
    deps = os.path.join(VERIF_DIR, ".deps")
    if deps not in sys.path:
        sys.path.append(deps)  # appended: never shadows /venv
    import warnings

    warnings.filterwarnings("ignore")
    import jax

    jax.config.update("jax_enable_x64", bool(x64))
    cache = os.path.join(VERIF_DIR, ".cache", "jax")
    try:
        os.makedirs(cache, exist_ok=True)
        jax.config.update("jax_compilation_cache_dir", cache)
        jax.config.update("jax_persistent_cache_min_compile_time_secs", 1.0)
    except Exception:
        pass
    _state["x64"] = bool(x64)
    _install_shim()
    if reach:
        _install_reach_monitor()
    import flowjax

    src = os.path.realpath(os.path.dirname(flowjax.__file__))
    if not src.startswith(os.path.realpath(REPO) + os.sep):
        raise RuntimeError(f"flowjax imported from {src}, expected under {REPO}")
    return flowjax


def _install_shim():
    """equinox 0.13.8 x jax 0.11.2: `is_inexact_array_like` calls element.__jax_array__()
    on tracers whose attribute is None (TypeError when constructing a module with an
    init=False field under a trace, i.e. WeightNormalization).  The function only feeds a
    warning decision inside equinox._module._module; we rebind that name only."""
    try:
        import equinox._module._module as M
        import jax
        import jax.numpy as jnp

        orig = M.is_inexact_array_like

        def _safe(element):
            if hasattr(element, "__jax_array__") and getattr(element, "__jax_array__") is None:
                return isinstance(element, jax.Array) and bool(
                    jnp.issubdtype(element.dtype, jnp.inexact)
                )
            return orig(element)

        M.is_inexact_array_like = _safe
        _state["shim"] = True
    except Exception:  # pragma: no cover
        _state["shim"] = False


def shim_ok() -> bool:
    return _state["shim"]


# ----------------------------------------------------------------------------------------
# Reach monitor: which source lines of the working tree's flowjax did the workload execute
# (or trace)?  sys.monitoring LINE events, each location disabled after its first hit.
# ----------------------------------------------------------------------------------------
def _install_reach_monitor():
    if _state["monitor"] or not hasattr(sys, "monitoring"):
        return
    mon = sys.monitoring
    tool = mon.COVERAGE_ID
    try:
        mon.use_tool_id(tool, "fjmon-reach")
    except ValueError:
        return
    prefix = os.path.realpath(os.path.join(REPO, "flowjax")) + os.sep
    lines = _state["lines"]
    DISABLE = mon.DISABLE

    def on_line(code, lineno):
        fn = code.co_filename
        if fn.startswith(prefix):
            lines.setdefault(fn[len(prefix):], set()).add(lineno)
        return DISABLE

    mon.register_callback(tool, mon.events.LINE, on_line)
    mon.set_events(tool, mon.events.LINE)
    _state["monitor"] = True


def _function_ranges(path):
    """{qualified function name: (first body line, last line)} for a source file."""
    out = {}
    try:
        tree = ast.parse(open(path).read())
    except Exception:
        return out

    def visit(node, prefix):
        for ch in ast.iter_child_nodes(node):
            if isinstance(ch, (ast.FunctionDef, ast.AsyncFunctionDef)):
                name = prefix + ch.name
                first = ch.body[0].lineno if ch.body else ch.lineno
                # skip a leading docstring
                if (
                    ch.body
                    and isinstance(ch.body[0], ast.Expr)
                    and isinstance(getattr(ch.body[0], "value", None), ast.Constant)
                    and isinstance(ch.body[0].value.value, str)
                    and len(ch.body) > 1
                ):
                    first = ch.body[1].lineno
                out[name] = (first, ch.end_lineno)
                visit(ch, name + ".")
            elif isinstance(ch, ast.ClassDef):
                visit(ch, prefix + ch.name + ".")

    visit(tree, "")
    return out


def reach_report():
    """{'files': {relpath: n_lines_hit}, 'functions': [relpath:qualname entered...]}"""
    files = {}
    funcs = []
    base = os.path.realpath(os.path.join(REPO, "flowjax"))
    for rel, hit in _state["lines"].items():
        files[rel] = len(hit)
        for name, (a, b) in _function_ranges(os.path.join(base, rel)).items():
            if any(a <= ln <= b for ln in hit):
                funcs.append(f"{rel}:{name}")
    return {"files": files, "functions": sorted(funcs)}
