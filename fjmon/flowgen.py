"""The five flow factories x {invert} x {cond, uncond} x transformer, built by the real factories."""
from __future__ import annotations

FACTORIES = ["coupling_flow", "masked_autoregressive_flow", "block_neural_autoregressive_flow", "planar_flow",
             "triangular_spline_flow"]


def flow_cases(dims=(2, 3), small=True):
    cases = []
    for dim in dims:
        for cond_dim in (None, 2):
            for invert in (True, False):
                for fac in FACTORIES:
                    base = {"factory": fac, "dim": dim, "cond_dim": cond_dim, "invert": invert}
                    if fac in ("coupling_flow", "masked_autoregressive_flow"):
                        for tr in (None, "rqs"):
                            cases.append(dict(base, transformer=tr, flow_layers=2, nn_width=6))
                    elif fac == "block_neural_autoregressive_flow":
                        cases.append(dict(base, flow_layers=2 if dim == 2 else 1, nn_block_dim=3, nn_depth=1))
                    elif fac == "planar_flow":
                        cases.append(dict(base, flow_layers=3, negative_slope=0.1))
                        if invert is False:
                            cases.append(dict(base, flow_layers=2, negative_slope=None))  # tanh: forward only
                    else:
                        cases.append(dict(base, flow_layers=2, knots=5))
    return cases


def case_name(c):
    return "{factory}(dim={dim},cond={cond_dim},invert={invert},tr={tr})".format(tr=c.get("transformer"), **c)


def flow_invertible(c):
    """Both directions of the flow's bijection implemented?"""
    return not (c["factory"] == "planar_flow" and c.get("negative_slope") is None)


def flow_numeric(c):
    """(bijection.transform numeric, bijection.inverse numeric)"""
    if c["factory"] != "block_neural_autoregressive_flow":
        return (False, False)
    return (True, False) if c["invert"] else (False, True)


def build_flow(c, key, base=None):
    import flowjax.flows as F
    import flowjax.bijections as B
    from flowjax.distributions import StandardNormal

    base = StandardNormal((c["dim"],)) if base is None else base
    fac = c["factory"]
    kw = {"cond_dim": c["cond_dim"], "invert": c["invert"], "flow_layers": c.get("flow_layers", 2)}
    if fac in ("coupling_flow", "masked_autoregressive_flow"):
        kw["nn_width"] = c.get("nn_width", 6)
        if c.get("transformer") == "rqs":
            kw["transformer"] = B.RationalQuadraticSpline(knots=c.get("knots", 4), interval=c.get("interval", 3))
    elif fac == "block_neural_autoregressive_flow":
        kw["nn_block_dim"] = c.get("nn_block_dim", 3)
        kw["nn_depth"] = c.get("nn_depth", 1)
        if c.get("activation") == "tanh":
            kw["activation"] = B.Tanh()
    elif fac == "planar_flow":
        kw["negative_slope"] = c.get("negative_slope")
        if c["cond_dim"] is not None:
            kw["width_size"] = 5
            kw["depth"] = 1
    else:
        kw["knots"] = c.get("knots", 5)
        if "tanh_max_val" in c:
            kw["tanh_max_val"] = c["tanh_max_val"]
    return getattr(F, fac)(key, base_dist=base, **kw)
