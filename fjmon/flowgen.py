"""The five flow factories x {invert} x {cond, uncond} x transformer, built by the real factories."""
from __future__ import annotations

FACTORIES = ["coupling_flow", "masked_autoregressive_flow", "block_neural_autoregressive_flow", "planar_flow",
             "triangular_spline_flow"]


def flow_cases(dims=(2, 3), small=True):
    cases = []
    for dim in dims:
        for cond_dim in (None, 2):
            for invert in (True, False):
                for fac in FACTORIES:
                    base = {"factory": fac, "dim": dim, "cond_dim": cond_dim, "invert": invert}
                    if fac in ("coupling_flow", "masked_autoregressive_flow"):
                        for tr in (None, "rqs"):
                            cases.append(dict(base, transformer=tr, flow_layers=2, nn_width=6))
                    elif fac == "block_neural_autoregressive_flow":
                        cases.append(dict(base, flow_layers=2 if dim == 2 else 1, nn_block_dim=3, nn_depth=1))
                    elif fac == "planar_flow":
                        cases.append(dict(base, flow_layers=3, negative_slope=0.1))
                        if invert is False:
                            cases.append(dict(base, flow_layers=2, negative_slope=None))  # tanh: forward only
                    else:
                        cases.append(dict(base, flow_layers=2, knots=5))
    return cases


def corner_cases():
    """Legal but unusual factory configurations (the fixed lattice above uses one set of hyper-parameters): one-dimensional
    flows, no hidden layers, a single flow layer, width 1, one- and two-knot splines, a non-symmetric spline interval, non-default
    tanh_max_val, block dimension 1, deeper block networks, a Tanh activation, more dimensions than the lattice."""
    cf, maf, bnaf, pl, tsf = FACTORIES
    C = []
    for cond in (None, 2):
        C += [
            {"factory": maf, "dim": 3, "cond_dim": cond, "invert": cond is None, "transformer": None, "flow_layers": 2, "nn_width": 5, "nn_depth": 0},
            {"factory": maf, "dim": 3, "cond_dim": cond, "invert": cond is not None, "transformer": "rqs", "flow_layers": 1, "nn_width": 4, "nn_depth": 0, "knots": 2},
            {"factory": cf, "dim": 3, "cond_dim": cond, "invert": cond is None, "transformer": "rqs", "flow_layers": 2, "nn_width": 4, "nn_depth": 0, "knots": 1},
            {"factory": cf, "dim": 5, "cond_dim": cond, "invert": cond is not None, "transformer": None, "flow_layers": 1, "nn_width": 1, "nn_depth": 2},
            {"factory": tsf, "dim": 3, "cond_dim": cond, "invert": cond is None, "flow_layers": 1, "knots": 1, "tanh_max_val": 1.0},
            {"factory": tsf, "dim": 1, "cond_dim": cond, "invert": cond is not None, "flow_layers": 2, "knots": 2, "tanh_max_val": 4.5},
        ]
    C += [
        {"factory": cf, "dim": 1, "cond_dim": 2, "invert": False, "transformer": None, "flow_layers": 2, "nn_width": 4},
        {"factory": maf, "dim": 1, "cond_dim": None, "invert": True, "transformer": "rqs", "flow_layers": 2, "nn_width": 4, "knots": 3, "interval": (-1.5, 2.5)},
        {"factory": maf, "dim": 4, "cond_dim": 1, "invert": False, "transformer": "rqs", "flow_layers": 2, "nn_width": 7, "nn_depth": 2, "knots": 6, "interval": (-2.0, 3.0)},
        {"factory": cf, "dim": 2, "cond_dim": None, "invert": False, "transformer": "rqs", "flow_layers": 3, "nn_width": 5, "knots": 4, "interval": (-1.0, 4.0)},
        {"factory": bnaf, "dim": 2, "cond_dim": None, "invert": True, "flow_layers": 1, "nn_block_dim": 1, "nn_depth": 0},
        # (no Tanh activation here: such a network is not onto, and the bisection search never returns for a value outside its range)
        {"factory": bnaf, "dim": 3, "cond_dim": 2, "invert": False, "flow_layers": 1, "nn_block_dim": 2, "nn_depth": 2},
        {"factory": bnaf, "dim": 1, "cond_dim": None, "invert": False, "flow_layers": 2, "nn_block_dim": 4, "nn_depth": 1},
        {"factory": pl, "dim": 1, "cond_dim": None, "invert": True, "flow_layers": 1, "negative_slope": 0.3},
        {"factory": pl, "dim": 4, "cond_dim": 1, "invert": False, "flow_layers": 1, "negative_slope": 0.01},
    ]
    for c in C:
        c["corner"] = True
    return C


def case_name(c):
    extra = ""
    if c.get("corner"):
        extra = "," + ",".join(f"{k}={c[k]}" for k in ("flow_layers", "nn_width", "nn_depth", "nn_block_dim", "knots", "interval", "tanh_max_val", "negative_slope",
                                                         "activation") if k in c)
    return "{factory}(dim={dim},cond={cond_dim},invert={invert},tr={tr}{extra})".format(tr=c.get("transformer"), extra=extra, **c)


def flow_invertible(c):
    """Both directions of the flow's bijection implemented?"""
    return not (c["factory"] == "planar_flow" and c.get("negative_slope") is None)


def flow_numeric(c):
    """(bijection.transform numeric, bijection.inverse numeric)"""
    if c["factory"] != "block_neural_autoregressive_flow":
        return (False, False)
    return (True, False) if c["invert"] else (False, True)


def build_flow(c, key, base=None):
    import flowjax.flows as F
    import flowjax.bijections as B
    from flowjax.distributions import StandardNormal

    base = StandardNormal((c["dim"],)) if base is None else base
    fac = c["factory"]
    kw = {"cond_dim": c["cond_dim"], "invert": c["invert"], "flow_layers": c.get("flow_layers", 2)}
    if fac in ("coupling_flow", "masked_autoregressive_flow"):
        kw["nn_width"] = c.get("nn_width", 6)
        if "nn_depth" in c:
            kw["nn_depth"] = c["nn_depth"]
        if c.get("transformer") == "rqs":
            iv = c.get("interval", 3)
            kw["transformer"] = B.RationalQuadraticSpline(knots=c.get("knots", 4), interval=tuple(iv) if isinstance(iv, (list, tuple)) else iv)
    elif fac == "block_neural_autoregressive_flow":
        kw["nn_block_dim"] = c.get("nn_block_dim", 3)
        kw["nn_depth"] = c.get("nn_depth", 1)
        if c.get("activation") == "tanh":
            kw["activation"] = B.Tanh()
    elif fac == "planar_flow":
        kw["negative_slope"] = c.get("negative_slope")
        if c["cond_dim"] is not None:
            kw["width_size"] = 5
            kw["depth"] = 1
    else:
        kw["knots"] = c.get("knots", 5)
        if "tanh_max_val" in c:
            kw["tanh_max_val"] = c["tanh_max_val"]
    return getattr(F, fac)(key, base_dist=base, **kw)
