"""Shared helpers for worker-side monitors (imported after fjmon.env.setup())."""
from __future__ import annotations

import hashlib
import json

import numpy as np


def jsonable(o):
    """Recursively convert numpy / jax values into JSON-serialisable Python values."""
    if isinstance(o, dict):
        return {str(k): jsonable(v) for k, v in o.items()}
    if isinstance(o, (list, tuple)):
        return [jsonable(v) for v in o]
    if isinstance(o, (np.floating, float)):
        f = float(o)
        return f if np.isfinite(f) else repr(f)
    if isinstance(o, (np.integer, int)) and not isinstance(o, bool):
        return int(o)
    if isinstance(o, (bool, np.bool_)):
        return bool(o)
    if o is None or isinstance(o, str):
        return o
    if hasattr(o, "shape") and hasattr(o, "dtype"):
        return jsonable(np.asarray(o).tolist())
    if isinstance(o, slice):
        return {"slice": [o.start, o.stop, o.step]}
    return repr(o)


def chash(*parts) -> str:
    h = hashlib.sha1()
    for p in parts:
        if isinstance(p, np.ndarray):
            h.update(p.tobytes())
            h.update(str(p.shape).encode())
        else:
            h.update(json.dumps(jsonable(p), sort_keys=True).encode())
    return h.hexdigest()[:16]


def is_nontrainable(leaf):
    from flowjax.wrappers import NonTrainable

    return isinstance(leaf, NonTrainable)


def partition_trainable(tree):
    """Exactly the partition the training loops use."""
    import equinox as eqx

    return eqx.partition(tree, eqx.is_inexact_array, is_leaf=is_nontrainable)


def perturb(tree, sigma, seed, clip=None):
    """Replace every trainable raw leaf by leaf + sigma*N(0,1) (NonTrainable kept as is)."""
    import equinox as eqx
    import jax

    if sigma == 0:
        return tree
    params, static = partition_trainable(tree)
    leaves, td = jax.tree_util.tree_flatten(params)
    rng = np.random.default_rng([int(seed), 77])
    new = []
    for l in leaves:
        a = np.asarray(l)
        v = a + sigma * rng.standard_normal(a.shape)
        if clip is not None:
            v = np.clip(v, -clip, clip)
        new.append(jax.numpy.asarray(v, dtype=a.dtype))
    return eqx.combine(jax.tree_util.tree_unflatten(td, new), static)


def set_leaves(tree, fn):
    """Replace every trainable raw leaf by fn(index, numpy_leaf)."""
    import equinox as eqx
    import jax

    params, static = partition_trainable(tree)
    leaves, td = jax.tree_util.tree_flatten(params)
    new = [jax.numpy.asarray(fn(i, np.asarray(l)), dtype=np.asarray(l).dtype) for i, l in enumerate(leaves)]
    return eqx.combine(jax.tree_util.tree_unflatten(td, new), static)


def eps_of(x64: bool) -> float:
    return 2.220446049250313e-16 if x64 else 1.1920929e-07
