"""Shared execution bundle for the bijection-level monitors (C01 round trip, C02 log-dets; reused by
C14/C18): for one structure, one jitted+vmapped program evaluates all four methods and the autodiff
Jacobian oracle on a boundary-directed input batch; parameters and inputs are dynamic arguments so
every parameter draw reuses the compile.  (Import after fjmon.env.setup().)"""
from __future__ import annotations

import math

import numpy as np

from fjmon import specs as S

K = 1e5  # rounding-error multiplier (1e4 left a 5x outlier for spline inverses in bins with derivative 1e-5)
LOG2 = math.log(2.0)


# ------------------------------------------------------------------ critical values -------
def criticals_from_spec(s, acc=None):
    """{class: [values]} the implementation compares inputs against, read off the spec."""
    acc = {} if acc is None else acc
    op = s["op"]
    if op == "RQS":
        iv = s["interval"]
        lo, hi = (iv if isinstance(iv, (list, tuple)) else (-iv, iv))
        acc.setdefault("spline_end", []).extend([float(lo), float(hi)])
    if op == "LeakyTanh":
        mv = float(s["max_val"])
        acc.setdefault("leaky_switch_x", []).extend([mv, -mv])
        acc.setdefault("leaky_switch_y", []).extend([math.tanh(mv), -math.tanh(mv)])
    if op in ("Coupling", "MAF"):
        criticals_from_spec(s["transformer"], acc)
    if op == "BNAF" and s.get("activation") is None:
        acc.setdefault("leaky_switch_x", []).extend([3.0, -3.0])
        acc.setdefault("leaky_switch_y", []).extend([math.tanh(3.0), -math.tanh(3.0)])
    for k in S.children(s):
        criticals_from_spec(k, acc)
    return acc


def criticals_from_object(obj, acc=None, max_knots=24):
    """Knot positions of every spline node in the (unwrapped) object."""
    import jax
    from flowjax.bijections import RationalQuadraticSpline, LeakyTanh
    from flowjax.wrappers import unwrap

    acc = {} if acc is None else acc
    try:
        u = unwrap(obj)
    except Exception:
        return acc
    nodes = jax.tree_util.tree_leaves(u, is_leaf=lambda n: isinstance(n, (RationalQuadraticSpline, LeakyTanh)))
    for n in nodes:
        if isinstance(n, RationalQuadraticSpline):
            try:
                xp = np.asarray(n.x_pos, dtype=np.float64).reshape(-1, n.knots + 2)
                yp = np.asarray(n.y_pos, dtype=np.float64).reshape(-1, n.knots + 2)
            except Exception:
                continue
            acc.setdefault("spline_end", []).extend([float(n.interval[0]), float(n.interval[1])])
            acc.setdefault("knot_x", []).extend(xp[:, 1:-1].ravel()[:max_knots].tolist())
            acc.setdefault("knot_y", []).extend(yp[:, 1:-1].ravel()[:max_knots].tolist())
        elif isinstance(n, LeakyTanh):
            acc.setdefault("leaky_switch_x", []).extend([n.max_val, -n.max_val])
            acc.setdefault("leaky_switch_y", []).extend([math.tanh(n.max_val), -math.tanh(n.max_val)])
    return acc


def make_points(tagarr, crit, rng, fdt, n_rand=36, n_crit=48, n_big=8, big=1e6, side="x"):
    """Boundary-directed batch for a coordinate-type array `tagarr`.  Returns (points[N,*shape], is_crit[N],
    hit_classes: list of sets)."""
    shape = tagarr.shape
    n = int(np.prod(shape, dtype=int))
    tg = tagarr.ravel()
    pts, crit_flag, hits = [], [], []

    def typed(v):
        """Map an unconstrained draw to each coordinate's type."""
        v = np.asarray(v, dtype=np.float64).reshape(-1)
        out = v.copy()
        out[tg == S.POS] = np.exp(np.clip(v[tg == S.POS], -30, 30))
        lim = 1 - (1e-6 if fdt == np.float64 else 1e-3)  # keeps autodiff's 1-y^2 free of cancellation
        out[tg == S.UNIT] = np.clip(np.tanh(v[tg == S.UNIT]), -lim, lim)
        return out

    for sig in (0.1, 1.0, 10.0):
        for _ in range(n_rand // 3):
            pts.append(typed(rng.standard_normal(n) * sig))
            crit_flag.append(False)
            hits.append(set())
    # critical values: each coordinate independently a critical value (or 0, +-1), with ulp neighbours
    pool = [(c, float(v)) for c, vs in crit.items() for v in vs]
    pool = [(c, v) for c, v in pool if np.isfinite(v)]
    pool += [("zero", 0.0), ("one", 1.0), ("one", -1.0)]
    for j in range(n_crit):
        v = rng.standard_normal(n)
        if (tg != S.R).any():
            v = np.where(tg == S.R, v, typed(v))
        hs = set()
        k = max(1, int(rng.integers(1, n + 1))) if j % 3 else n
        for i in rng.permutation(n)[:k]:
            c, val = pool[int(rng.integers(0, len(pool)))]
            if tg[i] == S.POS and val <= 0:
                continue
            if tg[i] == S.UNIT and abs(val) >= 1:
                continue
            off = int(rng.choice([0, 0, 0, 1, -1, 2, -2]))
            x = fdt(val)
            for _ in range(abs(off)):
                x = np.nextafter(x, fdt(np.inf if off > 0 else -np.inf))
            v[i] = float(x)
            if off == 0:
                hs.add(c)
        pts.append(v)
        crit_flag.append(True)
        hits.append(hs)
    for _ in range(n_big):
        mag = 10.0 ** rng.uniform(min(2.0, math.log10(big) - 1.0), math.log10(big), n)
        v = rng.choice([-1.0, 1.0], n) * mag
        v = np.where(tg == S.POS, np.abs(v), v)
        v = np.where(tg == S.UNIT, np.clip(np.tanh(rng.standard_normal(n) * 3), -1 + 1e-6, 1 - 1e-6), v)
        pts.append(v)
        crit_flag.append(False)
        hits.append(set())
    P = np.asarray(pts, dtype=np.float64).astype(fdt).reshape((len(pts), *shape))
    return P, np.asarray(crit_flag), hits


# ------------------------------------------------------------------ bundle ----------------
class Bundle:
    """Compiled evaluation of one structure.  `b` (the bijection pytree) is a traced argument when possible."""

    def __init__(self, has_inv, fwd_numeric, inv_numeric, cond_shape):
        import equinox as eqx
        import jax
        import jax.numpy as jnp

        self.has_inv, self.fwd_numeric, self.inv_numeric = has_inv, fwd_numeric, inv_numeric
        self.cond_shape = cond_shape
        self.mode = "arg"

        def flatJ(fn, x):
            J = jax.jacfwd(lambda v: jnp.ravel(fn(v)))(x)
            return J.reshape(J.shape[0], -1)

        def one_dom(b, x, c):
            f = lambda v: b.transform(v, c)
            g = lambda v: b.inverse(v, c)
            y, ld = b.transform_and_log_det(x, c)
            out = {"y": y, "ld": ld, "y2": f(x)}
            if not fwd_numeric:
                out["J"] = flatJ(f, x)
            else:
                out["Jg"] = flatJ(g, y)  # J_f(x) = inv(Jg) at the point the library returned
            if has_inv:
                xr, ldi = b.inverse_and_log_det(y, c)
                out.update(xr=xr, ldi=ldi, xr2=g(y))
                if not fwd_numeric:
                    out["Jr"] = flatJ(f, xr)  # oracle for ldi: at the point the library returned
            return out

        def one_cod(b, yc, c):
            f = lambda v: b.transform(v, c)
            g = lambda v: b.inverse(v, c)
            xp, ldi = b.inverse_and_log_det(yc, c)
            out = {"xp": xp, "ldi": ldi, "xp2": g(yc), "yp": f(xp)}
            if not fwd_numeric:
                out["J"] = flatJ(f, xp)
            else:
                out["Jg"] = flatJ(g, yc)
            return out

        self._one_dom, self._one_cod = one_dom, one_cod

        def run_dom(b, xs, cs):
            if cond_shape is None:
                return jax.vmap(lambda x: one_dom(b, x, None))(xs)
            return jax.vmap(lambda x, c: one_dom(b, x, c))(xs, cs)

        def run_cod(b, ys, cs):
            if cond_shape is None:
                return jax.vmap(lambda y: one_cod(b, y, None))(ys)
            return jax.vmap(lambda y, c: one_cod(b, y, c))(ys, cs)

        self._run_dom_raw, self._run_cod_raw = run_dom, run_cod
        self._run_dom = eqx.filter_jit(run_dom)
        self._run_cod = eqx.filter_jit(run_cod)
        self._closed = {}

    def _call(self, which, b, pts, cs):
        import jax
        import jax.numpy as jnp

        raw = self._run_dom_raw if which == "dom" else self._run_cod_raw
        fn = self._run_dom if which == "dom" else self._run_cod
        if self.mode == "arg":
            try:
                return {k: np.asarray(v) for k, v in fn(b, pts, cs).items()}
            except NotImplementedError:
                raise
            except Exception as e:  # tracing with the model as an argument failed (C14's business)
                self.mode = "closure"
                self.arg_error = f"{type(e).__name__}: {str(e)[:200]}"
        key = (which, id(b))
        if key not in self._closed:
            self._closed.clear()
            self._closed[key] = jax.jit(lambda p, c: raw(b, p, c))
        return {k: np.asarray(v) for k, v in self._closed[key](pts, cs).items()}

    def dom(self, b, xs, cs):
        return self._call("dom", b, xs, cs)

    def cod(self, b, ys, cs):
        return self._call("cod", b, ys, cs)


# ------------------------------------------------------------------ tolerance model -------
def _norms(J):
    """Batched inf-norms of J and J^-1 (nan where singular / non-finite)."""
    N, n, _ = J.shape
    nJ = np.abs(J).sum(2).max(1)
    nJi = np.full(N, np.nan)
    Ji = np.full_like(J, np.nan)
    good = np.isfinite(J).all((1, 2))
    if good.any():
        with np.errstate(all="ignore"):
            sign, logdet = np.linalg.slogdet(J[good])
        ok = np.isfinite(logdet) & (sign != 0)
        idx = np.where(good)[0][ok]
        if len(idx):
            with np.errstate(all="ignore"):
                inv = np.linalg.inv(J[idx])
            Ji[idx] = inv
            nJi[idx] = np.abs(inv).sum(2).max(1)
    return nJ, nJi, Ji


def slogdet_abs(J):
    out = np.full(J.shape[0], np.nan)
    good = np.isfinite(J).all((1, 2))
    if good.any():
        with np.errstate(all="ignore"):
            sign, ld = np.linalg.slogdet(J[good])
        ld = np.where(sign == 0, -np.inf, ld)
        out[good] = ld
    return out


def absmax(a):
    a = np.asarray(a, dtype=np.float64)
    return np.abs(a.reshape(a.shape[0], -1)).max(1) if a.size else np.zeros(a.shape[0])


def skeel(J, Ji):
    with np.errstate(all="ignore"):
        return np.einsum("nij,njk->nik", np.abs(Ji), np.abs(J)).sum(2).max(1)


def tri_prop(J):
    """||(I-|D^-1 L|)^-1||_inf if J is lower triangular, else nan (batched)."""
    N, n, _ = J.shape
    out = np.full(N, np.nan)
    for i in range(N):
        Ji = J[i]
        if not np.isfinite(Ji).all() or np.any(np.triu(Ji, 1) != 0):
            continue
        d = np.diag(Ji)
        if np.any(d == 0):
            continue
        L = np.tril(Ji, -1)
        try:
            out[i] = np.abs(np.linalg.inv(np.eye(n) - np.abs(L / d[:, None]))).sum(1).max()
        except np.linalg.LinAlgError:
            pass
    return out


class Tol:
    def __init__(self, x64, tol_inv=1e-7):
        self.x64 = x64
        # rounding multiplier: 1e5 in float64 (2e-11 relative); float32 has no such head-room - 5e2 (6e-5 relative,
        # the repository's own tests use 1e-4 absolute)
        self.K = K if x64 else 5e2
        self.eps = 2.220446049250313e-16 if x64 else 1.1920929e-07
        self.floor = 1e-9 if x64 else 1e-4
        self.gate = 1e-3 if x64 else 1e-2
        self.ldfloor = 1e-8 if x64 else 1e-4
        self.tol_inv = tol_inv
        self.fdt = np.float64 if x64 else np.float32

    def spacing(self, v):
        return np.spacing(np.asarray(np.abs(v), dtype=self.fdt)).astype(np.float64)

    def roundtrip(self, nJ, nJi, nx, ny, numeric_amp=None):
        """Tolerance for x -> y -> x given norms of J=dy/dx and its inverse; numeric_amp: amplification of
        the search tolerance when the x<-y step is numerical."""
        # E_f: absolute rounding error of evaluating f at x (maps of residual form x + h(x) carry eps*|x| even
        # when |y| and |J| are small through cancellation); E_g likewise for the inverse evaluated at y
        E_f = 1 + ny + nx * (1 + nJ)
        E_g = 1 + nx + ny * (1 + nJi)
        t = self.K * self.eps * (nJi * E_f + E_g) + self.floor * (1 + nx)
        if numeric_amp is not None:
            t = t + 10 * self.tol_inv * numeric_amp + 4 * self.spacing(nx) * numeric_amp
        ill = ~(t <= self.gate * (1 + nx))
        return t, ill

    def forward(self, nJ, nx, ny, numeric_amp=None):
        """Two executions of the same forward map (differently fused)."""
        t = self.K * self.eps * (1 + ny + nx * (1 + nJ)) + self.floor * (1 + ny) * 1e-3
        if numeric_amp is not None:
            t = t + 10 * self.tol_inv * numeric_amp + 4 * self.spacing(ny) * numeric_amp
        return t

    def logdet(self, ref, n, nJ, nJi):
        oracle = self.K * self.eps * n * nJi * (1 + nJ)
        t = self.ldfloor * (1 + np.abs(ref)) + oracle
        ill = ~(oracle <= 1e-3)
        return t, ill
