#!/bin/sh
# setup_cmd: offline install of the contract library next to (never shadowing) /venv.
set -e
cd "$(dirname "$0")"
if [ ! -d .deps/icontract ]; then
  /venv/bin/pip install --quiet --no-index --find-links /opt/veriftools/wheels --target .deps icontract >/dev/null 2>&1 || \
  /venv/bin/pip install --no-index --find-links /opt/veriftools/wheels --target .deps icontract
fi
mkdir -p evidence replay .work .cache
/venv/bin/python -c "import sys; sys.path.append('.deps'); import icontract; print('icontract', icontract.__version__)"
