#!/bin/sh
# usage: tools/process_seed6.sh <PROP> <A|B> [extra PROPs to also run]   (round-7 layout: /var/tmp/r7_<PROP>/SEEDED/<PROP>_<X>.diff, demo_<X>.py)
# Verifies the sub-agent's claim (demo + full suite in a scratch worktree) and runs ./check for PROP (and extras) against
# the patched sources (scratch copy via VERIF_REPO).  Log: /var/tmp/seedlog/r7_<PROP>_<X>.log
prop="$1"; x="$2"; shift 2
src=/var/tmp/r7_$prop/SEEDED
mkdir -p /var/tmp/seedlog
log=/var/tmp/seedlog/r7_${prop}_${x}.log
: > $log
/verif/tools/verify_seed.sh $src/${prop}_$x.diff $src/demo_$x.py >> $log 2>&1
for p in $prop "$@"; do
  /verif/tools/run_mutant.sh $src/${prop}_$x.diff $p quick >> $log 2>&1
done
echo "== $prop $x"; grep -E "^(SUITE|RESULT|CAUGHT|MISSED|INCONCLUSIVE|PATCH)|by mechanism" $log
