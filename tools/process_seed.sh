#!/bin/sh
# usage: tools/process_seed.sh <PROP> <A|B> [extra PROPs to also run]
# Verifies the sub-agent's claim (demo + full suite in a scratch worktree) and runs ./check for PROP (and extras) against
# the patched sources (scratch copy via VERIF_REPO).  Appends results to /var/tmp/seedlog/<PROP>_<X>.log
prop="$1"; x="$2"; shift 2
src=${SEEDBASE:-/tmp/seed}/$prop/SEEDED
mkdir -p /var/tmp/seedlog
log=/var/tmp/seedlog/${SEEDTAG:-}${prop}_${x}.log
: > $log
/verif/tools/verify_seed.sh $src/patch_$x.diff $src/demo_$x.py >> $log 2>&1
for p in $prop "$@"; do
  /verif/tools/run_mutant.sh $src/patch_$x.diff $p quick >> $log 2>&1
done
tail -n 40 $log | grep -E "^(SUITE|RESULT|CAUGHT|MISSED|INCONCLUSIVE|PATCH)" 
