#!/bin/sh
# usage: tools/run_mutant.sh <patch-file> <PROP> [tier]   -- applies the patch to a scratch copy of
# /repo (outside /repo and /verif), runs ./check PROP tier against it via VERIF_REPO, removes the copy.
# Prints CAUGHT (check exit 1), MISSED (exit 0) or INCONCLUSIVE (exit 2).
patch="$1"; prop="$2"; tier="${3:-quick}"
dir=$(mktemp -d /var/tmp/fjmut.XXXXXX)
trap 'rm -rf "$dir"' EXIT
cp -r /repo/flowjax "$dir/flowjax"
( cd "$dir" && patch -p1 -s --no-backup-if-mismatch < "$patch" ) || { echo "PATCH-FAILED $patch"; exit 3; }
out=$(cd /verif && VERIF_REPO="$dir" ./check "$prop" "$tier" 2>&1); rc=$?
echo "$out" | grep -E "VIOLATION|mechanism=|INCONCLUSIVE|^\[" | head -8
echo "$out" | grep "by mechanism" | head -1
case $rc in 1) echo "CAUGHT $prop $(basename $patch)";; 0) echo "MISSED $prop $(basename $patch)";; *) echo "INCONCLUSIVE($rc) $prop $(basename $patch)";; esac
