#!/bin/sh
# usage: tools/verify_seed.sh <patch.diff> <demo.py> [pytest-targets...]
# Confirms, in a scratch worktree of /repo (outside /repo and /verif, removed afterwards):
#   demo exits 0 on the clean tree, patch applies, demo exits non-zero with the patch,
#   and the baseline test-suite (or the given targets) has the same set of passing tests with the patch.
patch="$1"; demo="$2"; shift 2
dir=$(mktemp -d /var/tmp/seedv.XXXXXX); rmdir "$dir"
git -C /repo worktree add -q --detach "$dir" HEAD || exit 3
trap 'git -C /repo worktree remove --force "$dir" >/dev/null 2>&1; rm -rf "$dir"' EXIT
# demos written by sub-agents often hard-code their own worktree on sys.path: point them at the scratch tree instead
srcroot=$(dirname "$(dirname "$demo")")
mkdir -p "$dir/SEEDED"
# helper modules the demo imports travel with it
for f in "$(dirname "$demo")"/*.py; do sed "s#$srcroot#$dir#g" "$f" > "$dir/SEEDED/$(basename "$f")"; done
sed "s#$srcroot#$dir#g" "$demo" > "$dir/SEEDED/_demo.py"
( cd "$dir" && FLOWJAX_ROOT="$dir" PYTHONPATH="$dir" timeout 900 /venv/bin/python SEEDED/_demo.py >/dev/null 2>&1 ); clean=$?
( cd "$dir" && git apply "$patch" ) || { echo "RESULT patch-does-not-apply"; exit 3; }
( cd "$dir" && FLOWJAX_ROOT="$dir" PYTHONPATH="$dir" timeout 900 /venv/bin/python SEEDED/_demo.py >/dev/null 2>&1 ); broken=$?
targets="$@"; [ -z "$targets" ] && targets="tests"
( cd "$dir" && /venv/bin/python -m pytest -q -p no:cacheprovider --timeout=900 --continue-on-collection-errors --junitxml="$dir/_j.xml" $targets >/dev/null 2>&1 )
/venv/bin/python - "$dir/_j.xml" "$targets" <<'PY'
import sys, json, xml.etree.ElementTree as ET
base=set(json.load(open('/root/.vp/BASELINE.json'))['stable_pass'])
passed=set()
for tc in ET.parse(sys.argv[1]).getroot().iter('testcase'):
    if not any(ch.tag in ('failure','error','skipped') for ch in tc):
        passed.add(tc.get('classname')+'::'+tc.get('name'))
if sys.argv[2]=="tests":
    print("SUITE passed=%d baseline=%d missing=%s extra=%d" % (len(passed), len(base), sorted(base-passed)[:5], len(passed-base)))
else:
    sel={b for b in base if any(b.startswith(t.replace('/','.').replace('.py','')) for t in sys.argv[2].split())}
    print("SUITE(targets) passed=%d baseline-in-targets=%d missing=%s" % (len(passed), len(sel), sorted(sel-passed)[:5]))
PY
echo "RESULT demo_clean_exit=$clean demo_patched_exit=$broken"
