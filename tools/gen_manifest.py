#!/venv/bin/python
"""Regenerate /verif/MANIFEST.json from the table below (run after adding a check)."""
import json, os
HERE = os.path.dirname(os.path.dirname(os.path.abspath(__file__)))
ALL = [f"C{i:02d}" for i in range(1, 19)]
# property -> (technique, level text, level note, design_ref)
CHECKS = {
 "C10": ("runtime trace monitor: a harness bijection-like object records every evaluation point the search requests "
         "(ordered host callbacks); offline trace checker for bounded progress (logical steps, abort from inside the callback) "
         "and accuracy against roots known by construction; real BNAF inverses with far targets",
         "Exploration: ~1.7e4 (quick) / ~9e4 (thorough) search runs over a function family x root placement x interval x tol x "
         "max_iter x dtype grid, each with its complete evaluation trace; termination is decided on logical steps, accuracy "
         "against the constructed root with a stated floating-point resolution.",
         "Trusts the closed-form root construction (y=g(r) with the same compiled g) and the resolution term res; the "
         "bracket invariant is recorded but not a verdict (the statement does not require it).",
         "DESIGN.md 4/C10"),
 "C15": ("runtime trace monitor at the user loss_fn boundary (row tags, parameter-version counter, key words via ordered host "
         "callbacks) + icontract contracts on the real train_val_split/get_batches; offline history checker",
         "Exploration: hundreds (quick) / thousands (thorough) of sampled (n, batch_size, val_prop, condition, epochs, key) "
         "configurations of the real fit_to_data are run and the complete loss-call history of each is checked for partition, "
         "pairing, at-most-once use, remainder size, no validation row in a gradient step, key freshness and same-key determinism.",
         "Trusts ordered jax.debug.callback delivery; rows are identified by tags embedded in the data; split size accepted within 1 of val_prop*n.",
         "DESIGN.md 4/C15"),
 "C16": ("runtime history monitor: scripted loss + counting optimiser drive the real training loops; "
         "recorded loss-call trace and returned parameter version checked against a sequential reference model",
         "Exploration: every ordering of distinct losses up to length 5 (quick) / 7 (thorough) x all patience/epoch/"
         "return_best settings is executed on the real loops and compared with a sequential model written from the "
         "documentation; held means held on those histories, nothing is proved about longer ones.",
         "Trusts jax.debug.callback ordering, optax's GradientTransformation protocol and the harness's 15-line sequential model.",
         "DESIGN.md 4/C16"),
}
def main():
    checks = []
    for pid in ALL:
        if pid not in CHECKS: continue
        tech, text, note, ref = CHECKS[pid]
        checks.append({
            "property_id": pid,
            "quick_cmd": f"./check {pid} quick",
            "thorough_cmd": f"./check {pid} thorough",
            "evidence_file": f"/verif/evidence/{pid}.json",
            "replay_cmd_template": f"./check {pid} quick --replay {{path}}",
            "engine": "fjmon",
            "level_claimed": {"category": "exploration", "text": text, "design_ref": ref},
            "level_note": note,
            "technique": tech,
        })
    man = {
        "version": 1,
        "setup_cmd": "sh ./setup.sh",
        "hooks": {
            "guard": "FLOWJAX_VERIF",
            "enable": "no in-repo hooks: monitors are installed from the harness process on the working tree's "
                      "own functions (public extension points, rebinding in the worker process); FLOWJAX_VERIF is reserved",
            "baseline_off_cmd": "cd /repo && /venv/bin/python -m pytest -ra -q -p no:cacheprovider --timeout=900 --continue-on-collection-errors",
            "source_commits": [],
            "add_only": True,
        },
        "engines": [{"name": "fjmon", "path": "/verif/fjmon", "serves_properties": [c["property_id"] for c in checks],
                     "kind_free_text": "runtime monitors (contracts, reference-model monitors, trace checkers, invariant hooks) "
                                       "driven by generated/boundary-directed workloads in subprocess workers importing /repo's working tree"}],
        "checks": checks,
        "notes": "Technique family: runtime monitoring. See DESIGN.md. Compiler sanitizers/race detectors are not applicable "
                 "(pure Python on JAX, no threads, no native code).",
        "not_applicable": [{"property_id": p, "reason": "check not built yet in this round (planned: DESIGN.md section 4); not claimed until its monitor exists and is silent on the unchanged tree"}
                           for p in ALL if p not in CHECKS],
    }
    json.dump(man, open(os.path.join(HERE, "MANIFEST.json"), "w"), indent=1)
    print("checks:", [c["property_id"] for c in checks])
if __name__ == "__main__":
    main()
