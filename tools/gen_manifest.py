#!/venv/bin/python
"""Regenerate /verif/MANIFEST.json from the table below (run after adding a check)."""
import json, os
HERE = os.path.dirname(os.path.dirname(os.path.abspath(__file__)))
ALL = [f"C{i:02d}" for i in range(1, 19)]
# property -> (technique, level text, level note, design_ref)
CHECKS = {
 "C04": ("runtime global monitor: adaptive cell-subdivision cubature of exp(log_prob) of the real distribution over the whole space "
         "(tail-covering map, GL3 vs GL2 rules, convergence-certified asymmetric three-valued verdict) + seeded goodness-of-fit of the "
         "real sampler against the cubature's own cell masses (DKW / Hoeffding bounds, false-alarm 1e-9)",
         "Exploration: ~100 (distribution, parameter draw, condition) cases per quick run (all five factories x orientation x cond x "
         "transformer in dim 1-2 + hand-built Transformed incl. flows onto a restricted sample space (Exp / SoftPlus tails) integrated over all of R^d, sigma 0.3/0.6; 3e7 density evaluations, one sampler test per held case); "
         "thorough adds sigma 1.0 and every case at every sigma.",
         "Mass defects below 0.2 % (1-D) / 1 % (2-D) and sampler discrepancies below ~2.5 % CDF distance are out of resolution; "
         "unconverged cubatures are inconclusive, never alarms; every architecture x orientation must have a conclusive case.",
         "DESIGN.md 4/C04"),
 "C17": ("runtime reference-model monitor: loss values recomputed from the public log_prob / sample_and_log_prob in NumPy; the "
         "stick-the-landing gradient checked against plain gradient minus an independently computed score term; contrastive sets observed "
         "at the public log_prob boundary of a harness tag distribution (host callbacks) and the softmax cross-entropy recomputed from them",
         "Exploration: ~85 maximum-likelihood, 60 ELBO (value + gradient identity on 200 gradient leaves) and 70 contrastive evaluations "
         "(every n_contrastive for batches 2-32, one loss object over sequences of batch sizes, sharply peaked logits; 1e4 observed log_prob events), several batch layouts and "
         "partially out-of-support batches for the ML loss per quick run; thorough repeats 4x over all combinations.",
         "Value tolerance 1e-10 relative, gradient identity 1e-6; rows carry unique tags so the observed sets are unambiguous.",
         "DESIGN.md 4/C17"),
 "C14": ("runtime differential monitor with the eager execution as oracle: every method of every structure under eqx.filter_jit (bound "
         "method and model-as-argument), jax.vmap vs Python loop, repeated calls, a second model through the same compiled function "
         "(stale constants), pytree flatten/unflatten and equinox leaf serialisation into a model built from another key",
         "Exploration: ~260 bijection structures x 4 methods + 13 distributions x 3 methods, six clauses each (6.5e3 clause evaluations "
         "per quick run); repeat / flatten / serialisation clauses demand bit equality.",
         "jit-vs-eager tolerance scales with a finite-difference sensitivity estimate; paths through the bisection search get an extra 1e-5 x sensitivity.",
         "DESIGN.md 4/C14"),
 "C13": ("runtime rejection monitor: every method of every concrete class / generated composition / flow is called with every wrong shape "
         "of a lattice built around the declared shape (x and condition, missing condition) and must raise; well-formed calls must return "
         "the declared shapes; structural contract that all four methods of every concrete class carry the checking wrapper; constructor negatives",
         "Exploration, exhaustive over the per-structure lattice: ~270 structures x 4 methods x ~15 wrong x shapes + condition shapes "
         "(2e4 calls that must raise per quick run, ~1e3 of them repeated under jax.jit / jax.vmap), 10 distributions, ~50 constructor negatives, 28 classes inspected.",
         "Any exception counts as rejection; unconditional objects legitimately ignore a supplied condition.",
         "DESIGN.md 4/C13"),
 "C12": ("runtime contracts and reference monitors: icontract post-condition on the real unwrap (no wrapper left, idempotent) evaluated on "
         "every concrete call; independent NumPy evaluator for wrapper nestings; vmapped vs individual construction; wrapped vs "
         "pre-unwrapped method calls; exact-zero gradients and byte-identity of frozen / non-floating leaves across real training runs",
         "Exploration: 320 random nestings + 320 vmapped constructions, ~190 wrapped-vs-unwrapped method calls, 64 training runs "
         "(random frozen subsets x 4 optimisers x both loops) and ~14 000 contract evaluations per quick run.",
         "The unwrap contract only sees concrete calls (traced ones are counted); reference evaluator covers BijectionReparam, Where, "
         "WeightNormalization, Lambda, NonTrainable and a harness-defined unwrappable.",
         "DESIGN.md 4/C12"),
 "C11": ("runtime invariant monitor: predicates on unwrap(obj) evaluated after construction, after assigning every raw trainable leaf "
         "arbitrary values in the box |raw|<=50, and - through a harness rebinding of `step` in the training modules (invariant at a "
         "hook) - after every update of real training runs with aggressive optimisers; invalid constructor arguments must raise",
         "Exploration: 29 object kinds x (uniform / corner / mixed / normal) raw assignments x repetitions, ~260 constructor round trips with "
         "magnitudes 1e-6..1e6, 25 eager invalid-argument probes + 38 with the invalid value traced (constructor under filter_jit / constructed and used inside jax.jit), 32 training histories (230 checked steps) per quick run.",
         "Planar predicate only where the constraint is representable (w.u >= -30); spline strictness only for softmax_adjust >= 1e-3.",
         "DESIGN.md 4/C11"),
 "C09": ("runtime invariant monitor: exact-zero / strict-positivity predicates on the float64 autodiff Jacobians of the real layers and of "
         "the unwrapped masked conditioner after every trainable leaf has been overwritten; mask helpers vs NumPy definitions",
         "Exploration over an enumerated grid (dim 1-4 x cond x width 1-5 x depth 0-2 x transformer sizes, BNAF block sizes; quick: half "
         "of it, thorough: all x 4 weight modes x 3 seeds) with weights at init, N(0,25), +-50 corners, all-positive and (block networks) positive values of 400-1500 where only NaN-freeness and triangularity are judged; rank_based_mask over every integer dtype; forbidden "
         "entries must be exactly 0.0, permitted ones non-zero under the all-positive assignment.",
         "Trusts jax.jacfwd; the permitted-dependency clause is only evaluated where every path is provably active (all-positive, relu, positive inputs).",
         "DESIGN.md 4/C09"),
 "C03": ("runtime reference-model monitor over the distribution's own public parts: log_prob vs base.log_prob(inverse image)+inverse "
         "log-det, sample(key) vs transform(base.sample(key)), sample_and_log_prob vs sample and vs log_prob(sample), merge_transforms",
         "Exploration: ~380 distributions (every R->R structure in both orientations over 7 bases, conditional base x (un)conditional "
         "bijection, flow as base, nested Transformed, all five factories x orientation x cond x transformer) x 3 parameter draws x 40 "
         "points + 24 keys; non-trivial cases have |log-det| > 1e-3.",
         "The parts (bijection methods, base densities) are trusted here and decided by C01/C02/C05; clause (c) is gated where the round "
         "trip itself is ill-conditioned.",
         "DESIGN.md 4/C03"),
 "C06": ("runtime monitor through the documented extension point: tag distributions whose outputs encode exactly which key and which "
         "x/condition slice each element was computed from; decoded against NumPy broadcasting; real conditional flows compared with a "
         "Python loop of unbatched public calls",
         "Exploration: exhaustive over a lattice of event/condition/batch/sample shapes (8 batch shapes squared x 3 events x 4 condition "
         "shapes for log_prob, 4 sample shapes x batch shapes for sample and sample_and_log_prob; zero-length batch axes on x, the condition and sample_shape included) for tag distributions, plus 4 real "
         "conditional distributions and 4 restricted-support distributions whose batches mix points inside and outside the support.",
         "Trusts exactness of the float64 tag encoding (21+21 key bits, 10-bit slice id) and NumPy's broadcasting as the definition.",
         "DESIGN.md 4/C06"),
 "C05": ("runtime reference-model monitor: closed-form textbook log-densities (NumPy float64, scipy.stats second opinion) vs the public "
         "log_prob at interior/edge/outside/far-tail points, accessors vs constructor arguments, seeded KS goodness-of-fit of the samplers "
         "with the DKW bound, mixtures vs weighted logsumexp and weight rescaling",
         "Exploration: 12 families x generated broadcastable parameter arrays x ~60 points (2.4e4 density cases, ~200 accessor checks, "
         "~50 sampler tests of n=20000 per quick run), 300-dimensional location-scale cases, mixtures re-checked after a weight update, and two float32 shards "
         "(scalar families at magnitudes 1e-6..1e3).",
         "Sampler clause detects CDF discrepancies above 0.023 only (false-alarm bound 1e-9 per test); density tolerance 1e-9 relative; "
         "points within floating-point resolution of a support edge accept both conventions.",
         "DESIGN.md 4/C05"),
 "C07": ("runtime reference-model monitor: independent float64 NumPy implementations of every elementary bijection (written from the "
         "docstrings and cited papers) compared with transform() of real objects built from generated constructor arguments",
         "Exploration: 15 kinds x generated constructor arguments x 2 parameter modes x ~60 boundary-directed inputs (6.6e4 cases per "
         "quick run) plus spline structural clauses (passes through knots, monotone on a 2001-point grid, identity at initialisation).",
         "Trusts the harness's reference formulas (reviewed against the docstrings/papers) and NumPy; planar u_hat is taken from the "
         "library after checking the A.1 constraint structurally.",
         "DESIGN.md 4/C07"),
 "C08": ("runtime reference-model monitor: a batched NumPy interpreter applies the combinators' definitions to the children's own real "
         "methods; the real combinator's four methods, declared shape/cond_shape (vs NumPy's own stack/concatenate/index semantics), "
         "merge_chains, indexing, slicing and merge_transforms are compared with it",
         "Exploration: systematic sweep over every valid axis (negative included), every Partial index kind, Vmap parameter/condition "
         "mapping variants, integer class-label conditions through EmbedCondition (table lookup, also inside Chain / Invert), plus random trees; ~200 trees x 2 parameter draws x 4 methods x 24 inputs per quick run.",
         "Trusts NumPy's axis/index semantics as the definition and the children's own methods (decided by C01/C02/C07).",
         "DESIGN.md 4/C08"),
 "C18": ("runtime NaN/Inf monitor: jitted+vmapped bundles evaluate the public log_prob, jax.grad w.r.t. the input and the gradient "
         "w.r.t. every trainable leaf on boundary-directed inputs; a harness monitor on the real spline/leaky-tanh methods counts "
         "exact branch-value hits of inner leaves",
         "Exploration: ~370 distributions (every R->R leaf/combinator in both orientations, all flow factories, random trees) x 3 "
         "parameter draws x ~100 inputs (1.3e5 cases, 2e5 gradient checks per quick run) + a restricted-support pass (named families, SoftPlus/Exp/Tanh-transformed, "
         "Uniform; points inside, on the edge of and outside the support up to 1e6; float64 and float32); oracle isnan/isfinite, no tolerance.",
         "Only judged where |log_prob| <= 1e8 and |x| <= 1e4; log_prob paths that need the bisection search are checked for NaN only "
         "(reverse-mode differentiation through lax.while_loop is unsupported by JAX).",
         "DESIGN.md 4/C18"),
 "C01": ("runtime reference monitor on the real methods: jitted+vmapped bundles execute transform/inverse/*_and_log_det of generated "
         "bijection expressions on boundary-directed inputs; the round-trip identity is the oracle, with a conditioning-scaled "
         "tolerance derived from the float64 autodiff Jacobian",
         "Exploration: ~270 structures (all leaf classes and variants, every combinator, 5 flow factories x orientation x cond x "
         "transformer + 21 unusual factory configurations, random trees) x 5 parameter modes (initialisation, 3e-5, 3e-3, 0.5, 1.5) x ~150 inputs in both directions, float64 and a float32 pass, per quick run (3.6e5 cases); held = held on "
         "the compared (well-conditioned) cases; ill-conditioned cases are executed and counted but not compared.",
         "Trusts jax.jacfwd/NumPy linalg for the conditioning estimate, the tolerance model of DESIGN.md 3.5 and the harness-side "
         "equinox shim that makes BNAF/triangular-spline flows constructible in this environment.",
         "DESIGN.md 4/C01"),
 "C02": ("runtime reference monitor: reported log-dets of the real *_and_log_det methods vs log|det| of the float64 autodiff Jacobian "
         "of the plain transform (host-side slogdet), tie-aware (k log 2) and neighbour-envelope second pass at kinks",
         "Exploration: same generated structures/parameters/inputs as C01 (3.6e5 cases per quick run, both precisions), forward and inverse "
         "log-dets, inverse compared at the point the library returned; non-trivial cases have |log det| > 1e-6.",
         "Trusts jax.jacfwd of the plain transform as an independent oracle and NumPy slogdet; oracle-noise gates as stated in evidence.assumptions.",
         "DESIGN.md 4/C02"),
 "C10": ("runtime trace monitor: a harness bijection-like object records every evaluation point the search requests "
         "(ordered host callbacks); offline trace checker for bounded progress (logical steps, abort from inside the callback) "
         "and accuracy against roots known by construction; real BNAF inverses with far targets",
         "Exploration: ~1.7e4 (quick) / ~9e4 (thorough) search runs over a function family x root placement x interval x tol x "
         "max_iter x dtype grid, each with its complete evaluation trace; termination is decided on logical steps, accuracy "
         "against the constructed root with a stated floating-point resolution.",
         "Trusts the closed-form root construction (y=g(r) with the same compiled g) and the resolution term res; the "
         "bracket invariant is recorded but not a verdict (the statement does not require it).",
         "DESIGN.md 4/C10"),
 "C15": ("runtime trace monitor at the user loss_fn boundary (row tags, parameter-version counter, key words via ordered host "
         "callbacks) + icontract contracts on the real train_val_split/get_batches; offline history checker",
         "Exploration: hundreds (quick) / thousands (thorough) of sampled (n, batch_size, val_prop, condition, epochs, key) "
         "configurations of the real fit_to_data are run and the complete loss-call history of each is checked for partition, "
         "pairing, at-most-once use, remainder size, no validation row in a gradient step, key freshness and same-key determinism, in the worker and across fresh interpreter processes with different str-hash salts.",
         "Trusts ordered jax.debug.callback delivery; rows are identified by tags embedded in the data; split size accepted within 1 of val_prop*n.",
         "DESIGN.md 4/C15"),
 "C16": ("runtime history monitor: scripted loss + counting optimiser drive the real training loops; "
         "recorded loss-call trace and returned parameter version checked against a sequential reference model",
         "Exploration: every ordering of distinct losses up to length 5 (quick) / 7 (thorough) x all patience/epoch/"
         "return_best settings is executed on the real loops and compared with a sequential model written from the "
         "documentation, the runs of a shard in a seeded random order (nothing may carry over between calls); held means held on those histories, nothing is proved about longer ones.",
         "Trusts jax.debug.callback ordering, optax's GradientTransformation protocol and the harness's 15-line sequential model.",
         "DESIGN.md 4/C16"),
}
def main():
    checks = []
    for pid in ALL:
        if pid not in CHECKS: continue
        tech, text, note, ref = CHECKS[pid]
        checks.append({
            "property_id": pid,
            "quick_cmd": f"./check {pid} quick",
            "thorough_cmd": f"./check {pid} thorough",
            "evidence_file": f"/verif/evidence/{pid}.json",
            "replay_cmd_template": f"./check {pid} quick --replay {{path}}",
            "engine": "fjmon",
            "level_claimed": {"category": "exploration", "text": text, "design_ref": ref},
            "level_note": note,
            "technique": tech,
        })
    man = {
        "version": 1,
        "setup_cmd": "sh ./setup.sh",
        "hooks": {
            "guard": "FLOWJAX_VERIF",
            "enable": "no in-repo hooks: monitors are installed from the harness process on the working tree's "
                      "own functions (public extension points, rebinding in the worker process); FLOWJAX_VERIF is reserved",
            "baseline_off_cmd": "cd /repo && /venv/bin/python -m pytest -ra -q -p no:cacheprovider --timeout=900 --continue-on-collection-errors",
            "source_commits": [],
            "add_only": True,
        },
        "engines": [{"name": "fjmon", "path": "/verif/fjmon", "serves_properties": [c["property_id"] for c in checks],
                     "kind_free_text": "runtime monitors (contracts, reference-model monitors, trace checkers, invariant hooks) "
                                       "driven by generated/boundary-directed workloads in subprocess workers importing /repo's working tree"}],
        "checks": checks,
        "notes": "Technique family: runtime monitoring. See DESIGN.md. Compiler sanitizers/race detectors are not applicable "
                 "(pure Python on JAX, no threads, no native code).",
        "not_applicable": [{"property_id": p, "reason": "check not built yet in this round (planned: DESIGN.md section 4); not claimed until its monitor exists and is silent on the unchanged tree"}
                           for p in ALL if p not in CHECKS],
    }
    json.dump(man, open(os.path.join(HERE, "MANIFEST.json"), "w"), indent=1)
    print("checks:", [c["property_id"] for c in checks])
if __name__ == "__main__":
    main()
