#!/bin/sh
# usage: tools/run_seeded.sh [tier] [parallel] [glob]  -- runs every stored independent seeded change (seeded/<id>/patch.diff)
# against the check of the property it breaks (tools/run_mutant.sh: scratch copy outside /repo and /verif) and prints, per seed,
# one line "<dir> CAUGHT|MISSED|INCONCLUSIVE ... | <mechanism counts reported by the check>".  Expected: CAUGHT everywhere (except
# seeds whose meta.json carries status_on_current_tree = superseded ...), and the mechanisms should be the seeded behaviour.
tier="${1:-quick}"; par="${2:-3}"; pat="${3:-*}"
cd "$(dirname "$0")/.." || exit 3
for d in seeded/$pat/; do
  [ -f "$d/patch.diff" ] || continue
  prop=$(/venv/bin/python -c "import json,sys; m=json.load(open(sys.argv[1])); print(m.get('check_with', m['breaks_property']))" "$d/meta.json")
  echo "$d $prop"
done | xargs -P "$par" -L 1 sh -c 'o=$(tools/run_mutant.sh "$PWD/$0patch.diff" "$1" '"$tier"' 2>&1); r=$(echo "$o" | tail -1); m=$(echo "$o" | grep "by mechanism" | sed "s/.*by mechanism: //" | head -1); echo "$0 $r | $m"'
