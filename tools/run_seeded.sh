#!/bin/sh
# usage: tools/run_seeded.sh [tier] [parallel] [glob]  -- runs every stored independent seeded change (seeded/<id>/patch.diff)
# against the check of the property it breaks (tools/run_mutant.sh: scratch copy outside /repo and /verif) and prints one
# CAUGHT / MISSED / INCONCLUSIVE line per seed.  Expected: CAUGHT everywhere.
tier="${1:-quick}"; par="${2:-3}"; pat="${3:-*}"
cd "$(dirname "$0")/.." || exit 3
for d in seeded/$pat/; do
  [ -f "$d/patch.diff" ] || continue
  prop=$(/venv/bin/python -c "import json,sys; print(json.load(open(sys.argv[1]))['breaks_property'])" "$d/meta.json")
  echo "$d $prop"
done | xargs -P "$par" -L 1 sh -c 'r=$(tools/run_mutant.sh "$PWD/$0patch.diff" "$1" '"$tier"' 2>&1 | tail -1); echo "$0 $r"'
