#!/bin/sh
# usage: tools/run_all_mutants.sh [PROP ...]  -> runs every mutants/<PROP>/*.patch against ./check PROP quick
cd /verif
props="$@"; [ -z "$props" ] && props=$(ls mutants)
for p in $props; do
  for f in mutants/$p/*.patch; do
    [ -f "$f" ] || continue
    tools/run_mutant.sh /verif/$f $p quick 2>&1 | grep -E "^(CAUGHT|MISSED|INCONCLUSIVE|PATCH-FAILED)|by mechanism" | tr '\n' ' '; echo
  done
done
